/-
WP hard: the windowed leaf sums of `D_thread` over the whole range `[0, x/z)` are Gourdon's `D(x, y, z, k)` of
PcProofs/Spec/GourdonMain.lean (`Spec.D`).
-/
import PcProofs.HardDChunk
import PcProofs.Spec.GourdonMain

namespace Pc.Hard
open Nat Finset Classical
open scoped Nat.Prime ArithmeticFunction.Moebius

local notation "p" => Spec.p
local notation "φ" => Spec.phi

/-- a leaf `(q, m)` with `z < q·m` lies strictly below `x / z` (needs `z² ≤ x`) -/
theorem leaf_lt_xz {x z n : ℕ} (hz0 : 0 < z) (hzz : z * z ≤ x) (hn : z < n) : x / n < x / z := by
  have h1 : x / n ≤ x / (z + 1) := Nat.div_le_div_left hn (by omega)
  have h2 : x / (z + 1) < x / z := by
    rw [Nat.div_lt_iff_lt_mul (by omega)]
    have h3 : x < z * (x / z + 1) := Nat.lt_mul_div_succ x hz0
    have h4 : z ≤ x / z := (Nat.le_div_iff_mul_le hz0).2 hzz
    nlinarith
  omega

theorem z_lt_leaf {z q m : ℕ} (hq0 : 0 < q) (hm : z / q < m) : z < q * m := by
  have h1 := Nat.lt_mul_div_succ z hq0
  have h2 : q * (z / q + 1) ≤ q * m := Nat.mul_le_mul_left _ hm
  omega

/-- levels `b ≤ π√z`: the whole-range window sum is the `D` class of level `b` -/
theorem WD1_eq_Dterm {x y z b : ℕ} (hz0 : 0 < z) (hzz : z * z ≤ x) (hb1 : 1 ≤ b) (hbs : b ≤ π (Nat.sqrt z)) :
    WD1 x y z b 0 (x / z) = - Spec.Dterm x y z b := by
  have hq0 := Spec.p_pos b
  have hq2 := (Spec.p_prime hb1).two_le
  have hqs : p b ≤ Nat.sqrt z := (Spec.p_le_iff hb1).2 hbs
  have hqq : p b * p b ≤ z := Nat.le_sqrt.1 hqs
  have hzq : p b ≤ z / p b := (Nat.le_div_iff_mul_le hq0).2 hqq
  unfold WD1 Spec.Dterm
  congr 1
  rw [Finset.sum_filter, Finset.sum_filter]
  apply Finset.sum_congr rfl
  intro m hm
  rw [mem_Ioc] at hm
  have hm1 : m ≠ 1 := by omega
  have hwin : 0 ≤ x / (p b * m) ∧ x / (p b * m) < x / z :=
    ⟨Nat.zero_le _, leaf_lt_xz hz0 hzz (z_lt_leaf hq0 hm.1)⟩
  rw [if_pos hwin, Nat.mul_comm m (p b)]
  by_cases hmu : μ m = 0
  · rw [hmu, zero_mul]; simp
  · have hiff : GoodD (p b) y m ↔ ∀ q, q.Prime → q ∣ m → b < π q ∧ π q ≤ π y := by
      constructor
      · intro h q hq hd
        have h1 : m.minFac ≤ q := Nat.minFac_le_of_dvd hq.two_le hd
        exact ⟨(Spec.lt_pi_iff_p_lt hb1 hq).2 (lt_of_lt_of_le h.2.1 h1), Spec.pi_mono (h.2.2 q hq hd)⟩
      · intro h
        refine ⟨hmu, (Spec.lt_pi_iff_p_lt hb1 (Nat.minFac_prime hm1)).1
          (h _ (Nat.minFac_prime hm1) (Nat.minFac_dvd m)).1, fun r hr hd => ?_⟩
        have := (Spec.p_le_iff (Spec.one_le_pi_of_prime hr)).2 (h r hr hd).2
        rwa [Spec.p_pi_of_prime hr] at this
    exact if_congr (and_congr hiff Iff.rfl) rfl rfl

/-- levels `b > π√z`: every leaf is a prime `p_j`, `b < j ≤ π y` -/
theorem WD2_eq_Dterm {x y z b : ℕ} (hyz : y ≤ z) (hzz : z * z ≤ x) (hb1 : 1 ≤ b) (hpz : p b ≤ z)
    (hbs : ¬ b ≤ π (Nat.sqrt z)) : WD2 x y b 0 (x / z) = - Spec.Dterm x y z b := by
  have hq0 := Spec.p_pos b
  have hz0 : 0 < z := by omega
  have hqs : Nat.sqrt z < p b := (Spec.lt_p_iff hb1).2 (by omega)
  have hzqq : z < p b * p b := Nat.sqrt_lt.1 hqs
  have hzq1 : 1 ≤ z / p b := (Nat.le_div_iff_mul_le hq0).2 (by omega)
  unfold WD2 Spec.Dterm
  rw [← Finset.sum_neg_distrib]
  -- the leaves of this level are primes
  have hprime : ∀ m, z / p b < m → m ≤ z → (∀ q, q.Prime → q ∣ m → b < π q ∧ π q ≤ π y) → m.Prime := by
    intro m h1 h2 hA
    by_contra hnp
    have hm1 : m ≠ 1 := by omega
    have hr := Nat.minFac_prime hm1
    have h3 : p b < m.minFac := (Spec.lt_pi_iff_p_lt hb1 hr).1 (hA _ hr (Nat.minFac_dvd m)).1
    have h4 : m.minFac ^ 2 ≤ m := Nat.minFac_sq_le_self (by omega) hnp
    have h5 : p b * p b ≤ m.minFac * m.minFac := Nat.mul_le_mul h3.le h3.le
    rw [pow_two] at h4
    omega
  apply Finset.sum_nbij' (fun j => p j) (fun m => π m)
  · intro j hj
    rw [mem_filter, mem_Ioc] at hj
    obtain ⟨⟨hbj, hjy⟩, hcube⟩ := hj
    have hj1 : 1 ≤ j := by omega
    have hpj := Spec.p_prime hj1
    have hlt : p b < p j := Spec.p_lt_p hb1 hbj
    have hpjy : p j ≤ y := (Spec.p_le_iff hj1).2 hjy
    rw [mem_filter, mem_Ioc]
    refine ⟨⟨?_, by omega⟩, ?_, hcube⟩
    · rw [Nat.div_lt_iff_lt_mul hq0, Nat.mul_comm]
      have : p b * p b ≤ p b * p j := Nat.mul_le_mul_left _ hlt.le
      omega
    · intro q hq hd
      have : q = p j := (Nat.prime_dvd_prime_iff_eq hq hpj).1 hd
      rw [this, Spec.pi_p hj1]
      exact ⟨hbj, hjy⟩
  · intro m hm
    rw [mem_filter, mem_Ioc] at hm
    obtain ⟨⟨h1, h2⟩, hA, hcube⟩ := hm
    have hmp := hprime m h1 h2 hA
    rw [mem_filter, mem_Ioc, Spec.p_pi_of_prime hmp]
    exact ⟨hA m hmp dvd_rfl, hcube⟩
  · intro j hj
    rw [mem_filter, mem_Ioc] at hj
    exact Spec.pi_p (by omega)
  · intro m hm
    rw [mem_filter, mem_Ioc] at hm
    exact Spec.p_pi_of_prime (hprime m hm.1.1 hm.1.2 hm.2.1)
  · intro j hj
    rw [mem_filter, mem_Ioc] at hj
    obtain ⟨⟨hbj, hjy⟩, hcube⟩ := hj
    have hj1 : 1 ≤ j := by omega
    have hlt : p b < p j := Spec.p_lt_p hb1 hbj
    have hzpm : z < p b * p j := by
      have : p b * p b ≤ p b * p j := Nat.mul_le_mul_left _ hlt.le
      omega
    have hwin : 0 ≤ x / (p b * p j) ∧ x / (p b * p j) < x / z := ⟨Nat.zero_le _, leaf_lt_xz hz0 hzz hzpm⟩
    rw [if_pos hwin, ArithmeticFunction.moebius_apply_prime (Spec.p_prime hj1), Nat.mul_comm (p j) (p b)]
    ring

/-- **the leaves `D_thread` sums over the whole range `[0, x/z)` are Gourdon's `D`** -/
theorem WSD_total_eq_D {x y z k xs c3 : ℕ} (g : Spec.GParams x y z k xs c3) :
    ∑ b ∈ Ioc k (π xs), WSD x y z b 0 (x / z) = Spec.D x y z k xs := by
  have hy1 := g.y_pos
  have hxsy : xs ≤ y := le_trans (le_trans g.hws g.s_le_c3) g.c3_lt_y.le
  unfold Spec.D
  rw [← Finset.sum_neg_distrib]
  apply Finset.sum_congr rfl
  intro b hb
  rw [mem_Ioc] at hb
  have hb1 : 1 ≤ b := by omega
  have hpb : p b ≤ xs := (Spec.p_le_iff hb1).2 hb.2
  unfold WSD
  split_ifs with hs
  · exact WD1_eq_Dterm (by have := g.hyz; omega) g.hz hb1 hs
  · exact WD2_eq_Dterm g.hyz g.hz hb1 (by have := g.hyz; omega) hs

/-- the hypotheses of `dThread_eq` hold for Gourdon's parameters -/
theorem gparams_dThread_hyps {x y z k xs c3 : ℕ} (g : Spec.GParams x y z k xs c3) :
    y ≤ z ∧ Nat.sqrt z ≤ y ∧ xs ≤ y := by
  refine ⟨g.hyz, ?_, le_trans (le_trans g.hws g.s_le_c3) g.c3_lt_y.le⟩
  -- √z ≤ y: otherwise y² < z hence y⁴ < z² ≤ x < y³
  by_contra hlt
  push Not at hlt
  have h00 : (y + 1) * (y + 1) ≤ z := Nat.le_sqrt.1 hlt
  have h1 : y * y < z := by nlinarith
  have h2 := g.hz
  have h3 := g.hy3
  have hy1 := g.y_pos
  have h4 : y * y * (y * y) ≤ z * z := Nat.mul_le_mul h1.le h1.le
  have h5 : y ^ 3 ≤ y * y * (y * y) := by
    have : y ^ 3 = y * y * y := by ring
    rw [this]
    exact Nat.mul_le_mul_left _ (Nat.le_mul_of_pos_left y hy1)
  omega

variable {σ : Type} {S : SieveOps σ}

/-- `dThread_eq` on Gourdon's parameter domain (`GParams`, `x⋆ = xs`): only the tables, the sieve and the work item remain
    as hypotheses -/
theorem dThread_gparams {e : Env} {tmax x y z k xs c3 low segments segSize : ℕ} (g : Spec.GParams x y z k xs c3)
    (hS : ∀ K, K ≤ π y → ∃ H : SieveSpec S K, H.segOK low segSize)
    (hE : EnvOK e y) (hF : FactorDOK e tmax y z) (hk : 4 ≤ k) (heven : 2 ∣ low)
    (hsize : 1 ≤ segSize) (hsegs : 1 ≤ segments) (hlow : low < x / z) :
    dThread S e x xs (x / z) y z k low segments segSize =
      .ok (∑ b ∈ Ioc k (π xs), WSD x y z b low (chunkLimit low segments segSize (x / z))) :=
  dThread_eq hS hE hF (gparams_dThread_hyps g).1 (gparams_dThread_hyps g).2.1 (gparams_dThread_hyps g).2.2
    hk heven hsize hsegs hlow

/-- one work item covering the whole range `[0, x/z)`: `D_thread` returns Gourdon's `D(x, y, z, k)` -/
theorem dThread_whole_eq_D {e : Env} {tmax x y z k xs c3 segments segSize : ℕ} (g : Spec.GParams x y z k xs c3)
    (hS : ∀ K, K ≤ π y → ∃ H : SieveSpec S K, H.segOK 0 segSize)
    (hE : EnvOK e y) (hF : FactorDOK e tmax y z) (hk : 4 ≤ k)
    (hsize : 1 ≤ segSize) (hsegs : 1 ≤ segments) (hcover : x / z ≤ segSize * segments) :
    dThread S e x xs (x / z) y z k 0 segments segSize = .ok (Spec.D x y z k xs) := by
  have hz0 : 0 < z := by have := g.hyz; have := g.y_pos; omega
  have hxz : 0 < x / z := lt_of_lt_of_le hz0 ((Nat.le_div_iff_mul_le hz0).2 g.hz)
  rw [dThread_gparams g hS hE hF hk (dvd_zero 2) hsize hsegs hxz]
  have hc : chunkLimit 0 segments segSize (x / z) = x / z := by
    unfold chunkLimit; rw [Nat.zero_add]; exact min_eq_right hcover
  rw [hc, WSD_total_eq_D g]

/-- consecutive chunks add up (what `LoadBalancerS2` relies on): the windows `[lo, mid)` and `[mid, hi)` -/
theorem WSD_sum_add (x y z k xs lo mid hi : ℕ) (h1 : lo ≤ mid) (h2 : mid ≤ hi) :
    ∑ b ∈ Ioc k (π xs), WSD x y z b lo mid + ∑ b ∈ Ioc k (π xs), WSD x y z b mid hi =
      ∑ b ∈ Ioc k (π xs), WSD x y z b lo hi := by
  rw [← Finset.sum_add_distrib]
  exact Finset.sum_congr rfl (fun b _ => WSD_add x y z b lo mid hi h1 h2)

end Pc.Hard

#print axioms Pc.Hard.WD1_eq_Dterm
#print axioms Pc.Hard.WD2_eq_Dterm
#print axioms Pc.Hard.WSD_total_eq_D
#print axioms Pc.Hard.gparams_dThread_hyps
#print axioms Pc.Hard.dThread_gparams
#print axioms Pc.Hard.dThread_whole_eq_D
