/-
WP close2, item 2 (part 1) — the "PhiCache contents" hypothesis of WP close (`CallRunOK.cache` / `PhiRunOK.cache`: the L1 model
`phiOpenMP` of phi.cpp reads an ABSTRACT cache `PhiCacheL1` under `CacheOK`) is ELIMINATED by running the dispatcher over the
bit-level model `phiCpp` of WP phicache (PcModel/PhiCache.lean: `phi_OpenMP` with one fresh REAL `PhiCache` object per thread —
constructor geometry, `init_cache` sieving, `sieve_t` words, counts).

* `phiCpp_idealise`   `phiCpp` reads `pi_noprint` only on the two `phi_pix` returns and `pix_upper` only inside `phiGuards`
                      (the analogue of `phiOpenMP_idealise`)
* `phiCpp_call`       at a call `a ≤ π(√x)` with `CallOK` (tables right; literature-or-guard-not-taken; NOTHING about `pi_noprint`,
                      NOTHING about a cache) and every distribution `works` of `9..a` over threads: `phiCpp … = φ(x, a)`
* `phiCppReal`, `phiCppReal_eq`, `phiContract_of_cpp_model`   the ℕ-valued function the dispatcher calls; `PhiContract`
* `PhiContractIn`, `piApi64_step_to`, `nested_pi_eq_to`, `piApi128_to`, `piGourdon64_to`, `piDeleglieRivat64_to`
                      the world-step theorems of PcProofs/CloseWorldStep.lean for an ARBITRARY `phi` under `PhiContract` in the range
                      `30719 < n ≤ 10^8` where the dispatcher calls it (iterator contract up to `N` only, AC hook discharged).
                      `nested_pi_eq_to` is the reusable leg: any Gourdon / Deleglise-Rivat total-correctness theorem that asks
                      `∀ n < x, pi n = π n` composes with it (the entry points below use `piGourdon_total_to` as is).
-/
import PcProofs.CloseWorldStep
import PcProofs.PhiCacheTop

namespace Pc.Close2
open Nat Pc.Spec Pc.PhiFacts Pc.PhiAlgProofs Pc.ClosePhi Pc.PhiCacheL2 Pc.PhiCacheProofs
open scoped Nat.Prime

/-- on every return except the two through `phi_pix`, the bit-level `phi_OpenMP` reads neither `pi_noprint` nor (beyond the
    guards) `pix_upper` -/
theorem phiCpp_idealise (P : PhiTop) (est : ℕ) (works : List (List ℕ)) (x a : ℤ)
    (hge : phiGuards (idealise P) x a = phiGuards P x a)
    (hg : ¬ (phiGuards P x a = .phiPix1 ∨ phiGuards P x a = .phiPix2)) :
    phiCpp (idealise P) est works x a = phiCpp P est works x a := by
  unfold phiCpp
  rw [hge]
  cases h : phiGuards P x a <;> first | rfl | exact absurd (Or.inl h) hg | exact absurd (Or.inr h) hg

/-- `phiCpp` never reads `piFn` off the `phi_pix` returns -/
theorem phiCpp_piFn_irrelevant (P : PhiTop) (f : ℕ → ℕ) (est : ℕ) (works : List (List ℕ)) (x a : ℤ)
    (hg : ¬ (phiGuards P x a = .phiPix1 ∨ phiGuards P x a = .phiPix2)) :
    phiCpp { P with piFn := f } est works x a = phiCpp P est works x a := by
  unfold phiCpp
  rw [phiGuards_piFn]
  cases h : phiGuards P x a <;> first | rfl | exact absurd (Or.inl h) hg | exact absurd (Or.inr h) hg

/-- **`phi_OpenMP(x, a)` with REAL bit-level caches at `a ≤ π(√x)` is the Legendre sum** — without any hypothesis on
    `pi_noprint`, without any hypothesis on cache contents, for every float estimate `est` of the constructor and every
    distribution `works` of the loop indices over the threads -/
theorem phiCpp_call (P : PhiTop) (x a : ℕ) (hP : CallOK P x a) (ha : a ≤ π (Nat.sqrt x)) (est : ℕ)
    (works : List (List ℕ)) (hworks : works.flatten.Perm (List.range' 9 (a - 8))) :
    phiCpp P est works (x : ℤ) (a : ℤ) = (phi x a : ℤ) := by
  rw [← phiCpp_idealise P est works _ _ hP.guards_eq (hP.no_phiPix ha), ← phiZ_nat]
  exact phiCpp_correct _ (x : ℤ) (a : ℤ) (by simpa using hP.topOK) est works (by simpa using hworks)

/-- `phi(x, a, threads)` of phi.cpp as a function of naturals, over the BIT-LEVEL cache model: the call `phi(x, a)` builds the
    tables `P x a`, every thread constructs its own `PhiCache` with the float estimate `est x a` (`(uint64_t) pow(x, 1/2.3)`),
    thread `t` executes the loop indices `(works x a)[t]` in that order -/
def phiCppReal (P : ℕ → ℕ → PhiTop) (est : ℕ → ℕ → ℕ) (works : ℕ → ℕ → List (List ℕ)) (x a : ℕ) : ℕ :=
  (phiCpp (P x a) (est x a) (works x a) (x : ℤ) (a : ℤ)).toNat

/-- the analogue of `phiReal_eq` with NO cache hypothesis -/
theorem phiCppReal_eq (P : ℕ → ℕ → PhiTop) (est : ℕ → ℕ → ℕ) (works : ℕ → ℕ → List (List ℕ)) (x a : ℕ)
    (hP : CallOK (P x a) x a) (ha : a ≤ π (Nat.sqrt x))
    (hworks : (works x a).flatten.Perm (List.range' 9 (a - 8))) :
    phiCppReal P est works x a = phi x a := by
  unfold phiCppReal
  rw [phiCpp_call (P x a) x a hP ha (est x a) (works x a) hworks, Int.toNat_natCast]

/-- **`PhiContract` for the bit-level model of phi.cpp**, both calls of the dispatcher -/
theorem phiContract_of_cpp_model (P : ℕ → ℕ → PhiTop) (est : ℕ → ℕ → ℕ) (works : ℕ → ℕ → List (List ℕ)) (x : ℕ)
    (hL : CallOK (P x (π (Nat.sqrt x))) x (π (Nat.sqrt x)))
    (hLw : (works x (π (Nat.sqrt x))).flatten.Perm (List.range' 9 (π (Nat.sqrt x) - 8)))
    (hM : CallOK (P x (π (irootN 3 x))) x (π (irootN 3 x)))
    (hMw : (works x (π (irootN 3 x))).flatten.Perm (List.range' 9 (π (irootN 3 x) - 8))) :
    Pc.Top.PhiContract (phiCppReal P est works) x :=
  ⟨phiCppReal_eq P est works x _ hL le_rfl hLw, phiCppReal_eq P est works x _ hM (pi_iroot3_le_pi_sqrt x) hMw⟩

end Pc.Close2

namespace Pc.Top
open Nat Finset Pc.LB Pc.Hard PcGen.ApiConst Pc.PhiAlgProofs Pc.ClosePhi
open scoped Nat.Prime

/-- `PhiContract` where the dispatcher needs it: level `pi(n)` calls `phi` only for `maxCached < n ≤ meisselMax` -/
def PhiContractIn (phi : ℕ → ℕ → ℕ) (n : ℕ) : Prop := maxCached < n → n ≤ meisselMax → PhiContract phi n

theorem PhiContract.toIn {phi : ℕ → ℕ → ℕ} {n : ℕ} (h : PhiContract phi n) : PhiContractIn phi n := fun _ _ => h

/-- `piApi64_step_world` for an arbitrary `phi` (one level of the dispatcher; iterator contract up to `N`, no AC hook) -/
theorem piApi64_step_to {σ : Type} (T : Tables σ) {B N : ℕ} (hT : TablesOK (T.withIt (P2L.patch T.it N)) B)
    (hit : P2L.IterSpecTo T.it N) (hN : 2 ^ 64 - 2 ^ 32 ≤ N) (phi : ℕ → ℕ → ℕ) (pi : ℕ → ℕ) (x : ℤ)
    (hx : x < 2 ^ 63) (threads : ℤ) (isPrint : Bool) (r : ApiRun)
    (hphi : PhiContractIn phi x.toNat) (hpi : ∀ n : ℕ, (n : ℤ) < x → pi n = π n)
    (hex : (maxCached : ℤ) < x → ApiExecC T B false x.toNat r) :
    piApi64 T phi pi x threads isPrint r = .ok (π x.toNat : ℤ) ∨
      piApi64 T phi pi x threads isPrint r = .error (.hard .badRun) := by
  have c1 : (maxCached : ℤ) = 30719 := rfl
  have c2 : (legendreMax : ℤ) = 100000 := rfl
  have c3 : (meisselMax : ℤ) = 100000000 := rfl
  have n1 : maxCached = 30719 := rfl
  have l1 : legendreMax = 100000 := rfl
  have l2 : meisselMax = 100000000 := rfl
  unfold piApi64
  split_ifs with h1 h2 h3
  · left; rw [piCacheTop_eq x h1]
  · left
    have hpi' : ∀ m, m < x.toNat → pi m = π m := fun m hm => hpi m (by omega)
    rw [P2L.piLegendre_eq hpi' (hphi (by omega) (by omega)).1]
  · left
    have hpi' : ∀ m, m < x.toNat → pi m = π m := fun m hm => hpi m (by omega)
    have hex' := hex (by omega)
    have hxy : x.toNat / max (irootN 3 x.toNat) 1 < two63 := by
      have : x.toNat / max (irootN 3 x.toNat) 1 ≤ x.toNat := Nat.div_le_self _ _
      unfold two63; omega
    rw [P2L.piMeissel_to hit (two63_le_of hN) hpi' (hphi (by omega) (by omega)).2 T.lc hT.consts hxy r.meissel
      (fun a b => hex'.meissel (by omega) (by omega) a b)]
    rfl
  · have hex' := hex (by omega)
    exact piGourdon_total_to T hT hit hN pi false x (by unfold InType; simpa using hx) (Or.inr (by omega)) threads isPrint
      r.gourdon (fun n hn _ => hpi n hn) (fun _ => hex'.gourdon (by omega))

/-- the recursion through `pi_noprint` closes, for an arbitrary `phi` meeting its contract where it is called
    (`NestedByDispatcher` is WP close's generic definition, PcProofs/CloseTop.lean) -/
theorem nested_pi_eq_to {σ : Type} (T : Tables σ) {B N : ℕ} (hT : TablesOK (T.withIt (P2L.patch T.it N)) B)
    (hit : P2L.IterSpecTo T.it N) (hN : 2 ^ 64 - 2 ^ 32 ≤ N) (phi : ℕ → ℕ → ℕ) (pi : ℕ → ℕ) (x : ℤ)
    (hphi : ∀ n : ℕ, (n : ℤ) < x → n < 2 ^ 63 → PhiContractIn phi n)
    (hrec : NestedByDispatcher T B phi pi x) :
    ∀ n : ℕ, (n : ℤ) < x → n < 2 ^ 63 → pi n = π n := by
  intro n
  induction n using Nat.strong_induction_on with
  | _ n ih =>
    intro hn h63
    obtain ⟨threads, r, hex, hres⟩ := hrec n hn h63
    have hpi : ∀ m : ℕ, (m : ℤ) < (n : ℤ) → pi m = π m := fun m hm =>
      ih m (by exact_mod_cast hm) (by omega) (by omega)
    have hstep := piApi64_step_to T hT hit hN phi pi (n : ℤ) (by exact_mod_cast h63) threads false r
      (by rw [Int.toNat_natCast]; exact hphi n hn h63) hpi
      (fun h => by rw [Int.toNat_natCast]; exact hex (by exact_mod_cast h))
    rw [Int.toNat_natCast] at hstep
    rcases hstep with h | h
    · rw [hres] at h
      have : (pi n : ℤ) = (π n : ℤ) := by injection h
      exact_mod_cast this
    · rw [hres] at h; cases h

/-- **`pi(int128_t x)`**, every int128 `x`, arbitrary `phi` -/
theorem piApi128_to {σ : Type} (T : Tables σ) {B N : ℕ} (hT : TablesOK (T.withIt (P2L.patch T.it N)) B)
    (hit : P2L.IterSpecTo T.it N) (hN : 2 ^ 64 - 2 ^ 32 ≤ N) (phi : ℕ → ℕ → ℕ) (pi : ℕ → ℕ) (x : ℤ)
    (hx : x < 2 ^ 127) (threads : ℤ) (isPrint : Bool) (r : ApiRun)
    (hphi : ∀ n : ℕ, (n : ℤ) ≤ x → n < 2 ^ 63 → PhiContractIn phi n)
    (hrec : NestedByDispatcher T B phi pi x)
    (hex : (maxCached : ℤ) < x → ApiExecC T B (decide ((PiApi.int64Max : ℤ) < x)) x.toNat r) :
    piApi128 T phi pi x threads isPrint r = .ok (π x.toNat : ℤ) ∨
      piApi128 T phi pi x threads isPrint r = .error (.hard .badRun) := by
  have hpi := nested_pi_eq_to T hT hit hN phi pi x (fun n hn h63 => hphi n (by omega) h63) hrec
  have c0 : (PiApi.int64Max : ℤ) = 2 ^ 63 - 1 := by unfold PiApi.int64Max; norm_num
  have c1 : (maxCached : ℤ) = 30719 := rfl
  have l2 : meisselMax = 100000000 := rfl
  unfold piApi128
  split_ifs with h1 h2
  · left
    have : x.toNat = 0 := by omega
    rw [this]; rfl
  · have hd : decide ((PiApi.int64Max : ℤ) < x) = false := by simp; omega
    rw [hd] at hex
    exact piApi64_step_to T hT hit hN phi pi x (by omega) threads isPrint r
      (hphi x.toNat (by omega) (by omega)) (fun n hn => hpi n hn (by omega)) hex
  · have hd : decide ((PiApi.int64Max : ℤ) < x) = true := by simp; omega
    rw [hd] at hex
    have hex' := hex (by omega)
    exact piGourdon_total_to T hT hit hN pi true x (by unfold InType; simpa using hx) (Or.inr (by omega)) threads isPrint
      r.gourdon hpi (fun _ => hex'.gourdon (by omega))

/-- **`pi_gourdon_64(x)`**, int64 `x` with `x < 2 ∨ x ≥ 2401`, nested calls by the dispatcher over an arbitrary `phi` -/
theorem piGourdon64_to {σ : Type} (T : Tables σ) {B N : ℕ} (hT : TablesOK (T.withIt (P2L.patch T.it N)) B)
    (hit : P2L.IterSpecTo T.it N) (hN : 2 ^ 64 - 2 ^ 32 ≤ N) (phi : ℕ → ℕ → ℕ) (pi : ℕ → ℕ) (x : ℤ)
    (hx : x < 2 ^ 63) (hsmall : x < 2 ∨ 2401 ≤ x) (threads : ℤ) (isPrint : Bool) (r : GRun)
    (hphi : ∀ n : ℕ, (n : ℤ) < x → n < 2 ^ 63 → PhiContractIn phi n)
    (hrec : NestedByDispatcher T B phi pi x)
    (hex : 2 ≤ x → GExecC T B false x.toNat r) :
    piGourdon T pi false x threads isPrint r = .ok (π x.toNat : ℤ) ∨
      piGourdon T pi false x threads isPrint r = .error (.hard .badRun) :=
  piGourdon_total_to T hT hit hN pi false x (by unfold InType; simpa using hx) hsmall threads isPrint r
    (nested_pi_eq_to T hT hit hN phi pi x hphi hrec) hex

/-- **`pi_deleglise_rivat_64(x)`**, EVERY int64 `x`, nested calls by the dispatcher over an arbitrary `phi` -/
theorem piDeleglieRivat64_to {σ : Type} (T : Tables σ) {B N : ℕ} (hT : TablesOK (T.withIt (P2L.patch T.it N)) B)
    (hit : P2L.IterSpecTo T.it N) (hN : 2 ^ 64 - 2 ^ 32 ≤ N) (phi : ℕ → ℕ → ℕ) (pi : ℕ → ℕ) (x : ℤ)
    (hx : x < 2 ^ 63) (threads : ℤ) (isPrint : Bool) (r : DrRun)
    (hphi : ∀ n : ℕ, (n : ℤ) < x → n < 2 ^ 63 → PhiContractIn phi n)
    (hrec : NestedByDispatcher T B phi pi x)
    (hex : 2 ≤ x → DrExec T B false x.toNat r) :
    piDeleglieRivat T pi false x threads isPrint r = .ok (π x.toNat : ℤ) ∨
      piDeleglieRivat T pi false x threads isPrint r = .error (.hard .badRun) :=
  piDeleglieRivat64_total_to T hT hit hN pi x hx threads isPrint r
    (fun n hn => nested_pi_eq_to T hT hit hN phi pi x hphi hrec n hn (by
      have : (n : ℤ) < 2 ^ 63 := lt_trans hn hx
      exact_mod_cast this)) hex

end Pc.Top
