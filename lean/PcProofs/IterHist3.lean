/-
C18 (WP iter2): the iterator state after an arbitrary history (`runSt`) is related to the abstract cursor after that history
(`endCur`) — the "general position" for `buffer_contract`; repeated `generate_next_primes()` on one iterator object (`genIter`).
-/
import PcProofs.IterHist2

namespace Pc.It
open Nat

/-- the iterator state after a history (`run` of PcModel/Iter.lean keeps only the outputs) -/
def runSt (e : Env) : St → List Op → Except Err St
  | s, [] => .ok s
  | s, .jump a h :: ops => runSt e (jumpTo s a h) ops
  | s, .next :: ops =>
    match nextPrime e s with
    | .error err => .error err
    | .ok (_, s') => runSt e s' ops
  | s, .prev :: ops =>
    match prevPrime e s with
    | .error err => .error err
    | .ok (_, s') => runSt e s' ops

/-- the abstract cursor after a history (it stays where it is once `next` has failed) -/
noncomputable def endCur : Cur → List Op → Cur
  | c, [] => c
  | _, .jump a _ :: ops => endCur (Cur.fresh a) ops
  | c, .next :: ops =>
    match absNext c with
    | none => c
    | some p => endCur (Cur.at p) ops
  | c, .prev :: ops => endCur (Cur.at (absPrev c)) ops

/-- after ANY history that did not throw, the concrete state is related to the abstract cursor after that history -/
theorem runSt_inv (e : Env) (he : GenSpec e) :
    ∀ (ops : List Op) (s : St) (c : Cur), Inv s c → (∀ op ∈ ops, op.valid) → ∀ s', runSt e s ops = .ok s' →
      Inv s' (endCur c ops) := by
  intro ops
  induction ops with
  | nil =>
    intro s c h _ s' hs'
    have : s = s' := by simpa [runSt] using hs'
    subst this; exact h
  | cons op ops ih =>
    intro s c h hv s' hs'
    have hv' : ∀ op ∈ ops, op.valid := fun o ho => hv o (List.mem_cons_of_mem _ ho)
    cases op with
    | jump a hh =>
      have := hv (.jump a hh) List.mem_cons_self
      simp only [runSt] at hs'
      simp only [endCur]
      exact ih _ _ (inv_jump s a hh this.1 this.2) hv' s' hs'
    | next =>
      have hs := next_step e he h
      simp only [runSt] at hs'
      simp only [endCur]
      rcases hn : absNext c with _ | p
      · rw [hs.2 hn] at hs'; exact absurd hs' (by simp)
      · obtain ⟨s1, h1, h2⟩ := hs.1 p hn
        rw [h1] at hs'
        exact ih s1 _ h2 hv' s' hs'
    | prev =>
      obtain ⟨s1, h1, h2⟩ := prev_step e he h
      simp only [runSt] at hs'
      simp only [endCur]
      rw [h1] at hs'
      exact ih s1 _ h2 hv' s' hs'

/-- `run` throws exactly when `runSt` does (they are the same traversal) -/
theorem runSt_ok_iff (e : Env) : ∀ (ops : List Op) (s : St), (∃ s', runSt e s ops = .ok s') ↔ (run e s ops).2 = none := by
  intro ops
  induction ops with
  | nil => intro s; exact ⟨fun _ => rfl, fun _ => ⟨s, rfl⟩⟩
  | cons op ops ih =>
    intro s
    cases op with
    | jump a hh => simp only [runSt, run]; exact ih _
    | next =>
      simp only [runSt, run]
      rcases nextPrime e s with err | ⟨p, s1⟩
      · simp
      · simp only []; exact ih s1
    | prev =>
      simp only [runSt, run]
      rcases prevPrime e s with err | ⟨p, s1⟩
      · simp
      · simp only []; exact ih s1

/-! ### repeated `generate_next_primes()` on one iterator object (P2.cpp:65-74, StorePrimes.hpp) -/

/-- a state between two `generate_next_primes()` calls of a client that reads `primes_[…]` and moves `i_` itself: the buffer
    holds exactly the primes of `[n, L]`, the live generator sits right above `L` -/
structure Batch (s : St) (n L : ℕ) : Prop where
  last : s.buf.getLast? = some L
  primes : PrimesIn s.buf n L
  ready : FwdReady s (L + 1)
  hint : s.hint ≤ umax
  start : s.start ≤ umax
  lt : L < umax

theorem FwdDone.batch {s s' : St} {n : ℕ} (hd : FwdDone s s' n) (hh : s.hint ≤ umax) :
    ∃ L, Batch s' n L := by
  have h0 : 0 < s'.buf.length := List.length_pos_of_ne_nil hd.ne
  have hL := getLast?_eq_some_getElem h0
  obtain ⟨hP, hLs, hg⟩ := hd.covers _ hL
  have hLp := ((hP.2 _).1 (List.mem_of_getLast? hL)).1
  have hlt : s'.buf[s'.buf.length - 1] < umax := by
    have : s'.buf[s'.buf.length - 1] ≠ umax := fun h => umax_not_prime (h ▸ hLp)
    have := hd.stop_le
    omega
  exact ⟨_, hL, hP, ⟨hd.stop_le, Or.inr ⟨_, hg, rfl, rfl, hd.incl, by
    show s'.buf[s'.buf.length - 1] + 1 ≤ s'.mem.stop + 1; omega⟩⟩, by rw [hd.hint]; exact hh, hd.start_le, hlt⟩

/-- the `Batch` facts do not depend on `i_` (clients write it directly) -/
theorem Batch.set_i {s : St} {n L : ℕ} (h : Batch s n L) (j : ℕ) : Batch { s with i := j } n L :=
  ⟨h.last, h.primes, h.ready, h.hint, h.start, h.lt⟩

/-- the next `generate_next_primes()` of such a client: the new buffer holds exactly the primes of `[L + 1, L']` — nothing
    skipped, nothing repeated — or `primesieve_error` when no prime is left below 2^64 -/
theorem Batch.next (e : Env) (he : GenSpec e) {s : St} {n L : ℕ} (h : Batch s n L) :
    ((∃ p, p.Prime ∧ L + 1 ≤ p ∧ p ≤ umax) → ∃ s' L', genNext e bigFuel s = .ok s' ∧ s'.i = 0 ∧ Batch s' (L + 1) L') ∧
    ((∀ p, p.Prime → L + 1 ≤ p → ¬ p ≤ umax) → genNext e bigFuel s = .error .ps) := by
  have hspec := genNext_spec e he bigFuel s (L + 1) h.ready (by have := h.lt; omega) h.hint h.start (fwdFuel_le_big _ _)
  refine ⟨fun hp => ?_, hspec.2⟩
  obtain ⟨s', hs', hd⟩ := hspec.1 hp
  obtain ⟨L', hb⟩ := hd.batch h.hint
  exact ⟨s', L', hs', hd.i0, hb⟩

/-- the first `generate_next_primes()` of a fresh iterator -/
theorem Batch.first (e : Env) (he : GenSpec e) (start hint : ℕ) (hs : start ≤ umax) (hh : hint ≤ umax) :
    ((∃ p, p.Prime ∧ start ≤ p ∧ p ≤ umax) →
      ∃ s' L', genNext e bigFuel (init start hint) = .ok s' ∧ s'.i = 0 ∧ Batch s' start L') ∧
    ((∀ p, p.Prime → start ≤ p → ¬ p ≤ umax) → genNext e bigFuel (init start hint) = .error .ps) := by
  have hspec := genNext_spec e he bigFuel (init start hint) start (fwdReady_init start hint hs) hs hh hs (fwdFuel_le_big _ _)
  refine ⟨fun hp => ?_, hspec.2⟩
  obtain ⟨s', hs', hd⟩ := hspec.1 hp
  obtain ⟨L', hb⟩ := hd.batch hh
  exact ⟨s', L', hs', hd.i0, hb⟩

end Pc.It
