/-
C08 (wp-ac2), A + C part 3: the `C1<MU>` recursion of src/gourdon/AC.cpp:103-137 (model `Pc.Easy.c1`).

* `c1G`             the leaves below a node `(i, m)` of the recursion: subsets `S ⊆ (i, π y]` of prime indices with
                    `min_m < m·∏S ≤ max_m`, sign `(-1)^|S|`, value `π(xp / (m·∏S)) - b + 2` (`S = ∅` is the node itself);
* `c1G_step`, `c1G_break`   include / exclude the next prime; the early `return` (`m128 > max_m`) loses no leaf because the
                    primes increase;
* `c1_eq`           the recursion started at ANY node with any sign and accumulator returns
                    `acc - MU * (c1G - node)`; every `primes[·]`, `pi[·]` read in bounds, the product `(T) m * primes[i]`
                    inside the operand type, no `div` trap, `pi[xpm] - b + 2` never below zero.
-/
import PcProofs.EasyAC2
import PcProofs.LeafLoops

namespace Pc.Easy
open Nat Finset Classical
open scoped Nat.Prime

variable {t : NT}

/-- value of the C-leaf `(b, m)`: `π(xp / m) - b + 2` -/
noncomputable def cval (xp b m : ℕ) : ℤ := (π (xp / m) : ℤ) - b + 2

/-- the node `(i, m)` itself, if it is a leaf (`min_m < m ≤ max_m`) -/
noncomputable def c1Node (xp b minM maxM m : ℕ) : ℤ := if minM < m ∧ m ≤ maxM then cval xp b m else 0

/-- the leaves below the node `(i, m)` of the `C1` recursion (the node included) -/
noncomputable def c1G (xp b a minM maxM i m : ℕ) : ℤ :=
  ∑ S ∈ (Ioc i a).powerset.filter (fun S => minM < m * Spec.prodP S ∧ m * Spec.prodP S ≤ maxM),
    (-1 : ℤ) ^ S.card * cval xp b (m * Spec.prodP S)

theorem c1G_of_le {xp b a minM maxM i m : ℕ} (h : a ≤ i) : c1G xp b a minM maxM i m = c1Node xp b minM maxM m := by
  unfold c1G c1Node
  rw [Finset.Ioc_eq_empty (by omega), Finset.powerset_empty]
  split_ifs with hz
  · rw [Finset.filter_true_of_mem (by intro S hS; rw [mem_singleton] at hS; subst hS; simpa [Spec.prodP_empty] using hz)]
    simp [Spec.prodP_empty]
  · rw [Finset.filter_false_of_mem (by intro S hS; rw [mem_singleton] at hS; subst hS; simpa [Spec.prodP_empty] using hz)]
    simp

/-- **the early `return`**: when `m * p (i+1) > max_m` no leaf below `(i, m)` other than the node itself survives -/
theorem c1G_break {xp b a minM maxM i m : ℕ} (h : maxM < m * Spec.p (i + 1)) :
    c1G xp b a minM maxM i m = c1Node xp b minM maxM m := by
  unfold c1G c1Node
  have hsub : (Ioc i a).powerset.filter (fun S => minM < m * Spec.prodP S ∧ m * Spec.prodP S ≤ maxM)
      = if minM < m ∧ m ≤ maxM then {∅} else ∅ := by
    ext S
    rw [mem_filter, mem_powerset]
    constructor
    · rintro ⟨hS, hlo, hle⟩
      have hSe : S = ∅ := by
        by_contra hne
        have := Spec.le_prodP_of_mem hS (Finset.nonempty_iff_ne_empty.2 hne)
        have : m * Spec.p (i + 1) ≤ m * Spec.prodP S := Nat.mul_le_mul_left _ this
        omega
      subst hSe
      rw [Spec.prodP_empty, Nat.mul_one] at hlo hle
      rw [if_pos ⟨hlo, hle⟩]; simp
    · intro hS
      split_ifs at hS with hc
      · rw [mem_singleton] at hS; subst hS
        exact ⟨Finset.empty_subset _, by simpa [Spec.prodP_empty] using hc⟩
      · simp at hS
  rw [hsub]
  split_ifs <;> simp [Spec.prodP_empty]

/-- **include / exclude the next prime** -/
theorem c1G_step {xp b a minM maxM i m : ℕ} (hia : i < a) :
    c1G xp b a minM maxM i m = c1G xp b a minM maxM (i + 1) m - c1G xp b a minM maxM (i + 1) (m * Spec.p (i + 1)) := by
  set T := Ioc (i + 1) a with hT
  have hIoc : Ioc i a = insert (i + 1) T := by
    ext j; simp [hT, mem_Ioc]; omega
  have hnot : (i + 1) ∉ T := by simp [hT]
  have hpow : (Ioc i a).powerset = T.powerset ∪ T.powerset.image (insert (i + 1)) := by
    rw [hIoc, Finset.powerset_insert]
  have hdisj : Disjoint (T.powerset.filter (fun S => minM < m * Spec.prodP S ∧ m * Spec.prodP S ≤ maxM))
      ((T.powerset.image (insert (i + 1))).filter (fun S => minM < m * Spec.prodP S ∧ m * Spec.prodP S ≤ maxM)) := by
    rw [Finset.disjoint_left]
    intro S hS hS'
    simp only [mem_filter, mem_powerset, mem_image] at hS hS'
    obtain ⟨⟨U, _, rfl⟩, _⟩ := hS'
    exact hnot (hS.1 (mem_insert_self _ _))
  unfold c1G
  rw [hpow, Finset.filter_union, Finset.sum_union hdisj, sub_eq_add_neg]
  congr 1
  rw [Finset.filter_image, Finset.sum_image, ← Finset.sum_neg_distrib]
  · apply Finset.sum_congr
    · ext S
      simp only [mem_filter, mem_powerset]
      constructor
      · rintro ⟨hS, h⟩
        have : (i + 1) ∉ S := fun hh => hnot (hS hh)
        rw [Spec.prodP_insert this] at h
        exact ⟨hS, by rw [Nat.mul_assoc, Nat.mul_comm (Spec.p (i + 1))]; exact h⟩
      · rintro ⟨hS, h⟩
        have : (i + 1) ∉ S := fun hh => hnot (hS hh)
        rw [Spec.prodP_insert this]
        exact ⟨hS, by rw [Nat.mul_assoc, Nat.mul_comm (Spec.p (i + 1))] at h; exact h⟩
    · intro S hS
      simp only [mem_filter, mem_powerset] at hS
      have : (i + 1) ∉ S := fun hh => hnot (hS.1 hh)
      rw [Spec.prodP_insert this, Finset.card_insert_of_notMem this,
        show m * (Spec.prodP S * Spec.p (i + 1)) = m * Spec.p (i + 1) * Spec.prodP S by ring]
      ring
  · intro S hS U hU h
    simp only [mem_filter, mem_powerset, coe_filter, Set.mem_setOf_eq] at hS hU
    have h1 : (i + 1) ∉ S := fun hh => hnot (hS.1 hh)
    have h2 : (i + 1) ∉ U := fun hh => hnot (hU.1 hh)
    have := congrArg (fun V => V.erase (i + 1)) h
    simpa [Finset.erase_insert h1, Finset.erase_insert h2] using this

theorem c1_unfold (k : Kern) (t : NT) (w : ITy) (size maxPi piY xp b minM maxM : ℕ) (mu : ℤ) (i m : ℕ) (acc : ℤ) :
    c1 k t w size maxPi piY xp b minM maxM mu i m acc =
      if _h : i + 1 ≤ piY then do
        let q ← primesGet t size (i + 1)
        let m' ← mulE w m q
        if m' > maxM then pure acc
        else do
          let acc1 ← if m' > minM then do
              let xpm ← k.div xp m'
              let v ← piGet t maxPi xpm
              let phi ← phiU v b
              pure (acc + phi * mu)
            else pure acc
          let r ← c1 k t w size maxPi piY xp b minM maxM (-mu) (i + 1) m' 0
          c1 k t w size maxPi piY xp b minM maxM mu (i + 1) m (acc1 + r)
      else pure acc := by
  rw [c1]

/-- **`c1_eq`: the recursion enumerates exactly the leaves below its node** — `C1<MU>(xp, b, i, pi_y, m, min_m, max_m, …)`
    entered with the local `sum = acc`.  `a = π y` is the last prime index of the vector, `max_m * y` fits the operand type
    (the product `(T) m * primes[i]` is formed BEFORE it is compared with `max_m`), every leaf `m' ∈ (min_m, max_m]` has
    `xp / m' ≤ maxPi` (the `pi[xpm]` read) and `b ≤ π(xp / m') + 2` (no wrap of `pi[xpm] - b + 2`; holds as soon as
    `p b ≤ xp / max_m`). -/
theorem c1_eq (k : Kern) (hv : t.Valid) {w : ITy} {size maxPi y xp b minM maxM : ℕ} (hsz : π y < size) (hy : y ≤ t.bound)
    (hw : maxM * y ≤ w.maxVal) (hmb : maxPi ≤ t.bound) (hm64 : maxPi < 2 ^ 64)
    (hread : ∀ m', minM < m' → m' ≤ maxM → xp / m' ≤ maxPi ∧ b ≤ π (xp / m') + 2) :
    ∀ n i, π y - i = n → ∀ (mu : ℤ) (m : ℕ) (acc : ℤ), 1 ≤ m → m ≤ maxM →
      c1 k t w size maxPi (π y) xp b minM maxM mu i m acc
        = .ok (acc - mu * (c1G xp b (π y) minM maxM i m - c1Node xp b minM maxM m)) := by
  intro n
  induction n with
  | zero =>
    intro i hi mu m acc _ _
    rw [c1_unfold, dif_neg (by omega), c1G_of_le (by omega)]
    simp
  | succ n ih =>
    intro i hi mu m acc hm1 hmM
    have hia : i < π y := by omega
    have hpy : Spec.p (i + 1) ≤ y := (Spec.p_le_iff (by omega)).2 (by omega)
    have hp2 := Spec.two_le_p (i + 1)
    have hmul : m * Spec.p (i + 1) ≤ w.maxVal := le_trans (Nat.mul_le_mul hmM hpy) hw
    rw [c1_unfold, dif_pos (by omega), primesGet_ok hv (by omega) (by omega) (le_trans (by omega) (Spec.pi_mono hy)),
      EM_bind_ok, mulE_ok hmul, EM_bind_ok]
    by_cases hbrk : m * Spec.p (i + 1) > maxM
    · rw [if_pos hbrk, c1G_break hbrk]
      simp
    · rw [if_neg hbrk]
      have hm'1 : 1 ≤ m * Spec.p (i + 1) := Nat.mul_pos hm1 (by omega)
      have hm'2 : 2 ≤ m * Spec.p (i + 1) := le_trans hp2 (Nat.le_mul_of_pos_left _ hm1)
      have hm'M : m * Spec.p (i + 1) ≤ maxM := by omega
      by_cases hlo : m * Spec.p (i + 1) > minM
      · obtain ⟨hr1, hr2⟩ := hread _ hlo hm'M
        rw [if_pos hlo, kern_div_ok k hm'2 (by omega), EM_bind_ok, piGet_ok hv hr1 (le_trans hr1 hmb), EM_bind_ok,
          phiU_ok hr2, EM_bind_ok, EM_pure, EM_bind_ok,
          ih (i + 1) (by omega) (-mu) _ 0 hm'1 hm'M]
        simp only [EM_bind_ok]
        rw [ih (i + 1) (by omega) mu m _ hm1 hmM, c1G_step hia]
        congr 1
        have : c1Node xp b minM maxM (m * Spec.p (i + 1)) = cval xp b (m * Spec.p (i + 1)) := by
          unfold c1Node; rw [if_pos ⟨hlo, hm'M⟩]
        rw [this]
        unfold cval
        ring
      · rw [if_neg hlo, EM_pure, EM_bind_ok,
          ih (i + 1) (by omega) (-mu) _ 0 hm'1 hm'M]
        simp only [EM_bind_ok]
        rw [ih (i + 1) (by omega) mu m _ hm1 hmM, c1G_step hia]
        congr 1
        have : c1Node xp b minM maxM (m * Spec.p (i + 1)) = 0 := by
          unfold c1Node; rw [if_neg (fun h => hlo h.1)]
        rw [this]
        ring

end Pc.Easy
