/-
C18 (WP iter2): `store_primes(start, stop, vector)` (StorePrimes.hpp:57-99, PcModel/Iter.lean `storePrimes`, `storeLoop1`,
`storeLoop2`) delivers exactly the primes of `[start, stop]`, on top of the batch contract of `generate_next_primes()`
(`Batch`, PcProofs/IterHist3.lean).
-/
import PcProofs.IterHist3

namespace Pc.It
open Nat

/-- `l` lists exactly the primes of `[a, n)`, strictly increasing -/
def PrimesLt (l : List ℕ) (a n : ℕ) : Prop :=
  l.Pairwise (· < ·) ∧ ∀ q, q ∈ l ↔ q.Prime ∧ a ≤ q ∧ q < n

theorem PrimesLt.nil (a : ℕ) : PrimesLt [] a a :=
  ⟨List.Pairwise.nil, fun q => by simp only [List.not_mem_nil, false_iff]; omega⟩

/-- appending the next batch -/
theorem PrimesLt.append {acc buf : List ℕ} {a n L : ℕ} (h : PrimesLt acc a n) (hb : PrimesIn buf n L) (han : a ≤ n) (hnL : n ≤ L) :
    PrimesLt (acc ++ buf) a (L + 1) := by
  refine ⟨List.pairwise_append.2 ⟨h.1, hb.1, fun x hx y hy => ?_⟩, fun q => ?_⟩
  · have := ((h.2 x).1 hx).2.2
    have := ((hb.2 y).1 hy).2.1
    omega
  · rw [List.mem_append, h.2 q, hb.2 q]
    constructor
    · rintro (⟨h1, h2, h3⟩ | ⟨h1, h2, h3⟩)
      · refine ⟨h1, h2, ?_⟩
        omega
      · exact ⟨h1, by omega, by omega⟩
    · rintro ⟨h1, h2, h3⟩
      by_cases hq : q < n
      · exact Or.inl ⟨h1, h2, hq⟩
      · exact Or.inr ⟨h1, by omega, by omega⟩


theorem Batch.le {s : St} {n L : ℕ} (h : Batch s n L) : n ≤ L :=
  ((h.primes.2 L).1 (List.mem_of_getLast? h.last)).2.1

/-- StorePrimes.hpp:84 — the loop over whole buffers: it terminates (at most `limit + 2 - n` iterations), `acc` collects
    exactly the primes below the position `n'` of the buffer it stops in, and that buffer's last entry exceeds `limit` -/
theorem storeLoop1_spec (e : Env) (he : GenSpec e) (start limit : ℕ) (hp : ∃ p, p.Prime ∧ limit < p ∧ p ≤ umax) :
    ∀ fuel (s : St) (acc : List ℕ) (n L : ℕ), Batch s n L → PrimesLt acc start n → start ≤ n → n ≤ limit + 1 →
      limit + 2 ≤ fuel + n →
      ∃ s' acc' n' L', storeLoop1 e limit fuel s acc = .ok (s', acc') ∧ Batch s' n' L' ∧ PrimesLt acc' start n' ∧
        start ≤ n' ∧ n' ≤ limit + 1 ∧ limit < L' := by
  intro fuel
  induction fuel with
  | zero => intro s acc n L _ _ _ h1 h2; omega
  | succ fuel ih =>
    intro s acc n L hb hacc hsn hnl hf
    rw [storeLoop1, hb.last]
    simp only []
    by_cases hL : L ≤ limit
    · rw [if_pos hL]
      obtain ⟨p, hp1, hp2, hp3⟩ := hp
      obtain ⟨s', L', h1, _, h3⟩ := (hb.next e he).1 ⟨p, hp1, by omega, hp3⟩
      rw [h1]
      simp only []
      have hle := hb.le
      exact ih s' (acc ++ s.buf) (L + 1) L' h3 (hacc.append hb.primes hsn hle) (by omega) (by omega) (by omega)
    · rw [if_neg hL]
      exact ⟨s, acc, n, L, rfl, hb, hacc, hsn, hnl, by omega⟩

/-- StorePrimes.hpp:86 — the loop inside the last buffer: it stops at the first entry above `limit` (never reads outside the
    buffer when such an entry exists) and has appended the entries before it -/
theorem storeLoop2_spec (limit : ℕ) (buf : List ℕ) :
    ∀ d i (acc : List ℕ), buf.length - i ≤ d → (∃ j, i ≤ j ∧ ∃ h : j < buf.length, limit < buf[j]) →
      ∃ k, i ≤ k ∧ ∃ h : k < buf.length, limit < buf[k] ∧ (∀ j (hj : j < buf.length), i ≤ j → j < k → buf[j] ≤ limit) ∧
        storeLoop2 limit buf i acc = .ok (acc ++ (buf.take k).drop i) := by
  intro d
  induction d with
  | zero => intro i acc hd ⟨j, hij, hj, _⟩; omega
  | succ d ih =>
    intro i acc hd ⟨j, hij, hj, hjl⟩
    have hi : i < buf.length := by omega
    rw [storeLoop2, dif_pos hi]
    by_cases hle : buf[i] ≤ limit
    · rw [if_pos hle]
      have hij' : i + 1 ≤ j := by
        rcases Nat.eq_or_lt_of_le hij with heq | hlt
        · subst heq; omega
        · omega
      obtain ⟨k, hik, hk, hkl, hall, hres⟩ := ih (i + 1) (acc ++ [buf[i]]) (by omega) ⟨j, hij', hj, hjl⟩
      refine ⟨k, by omega, hk, hkl, fun j' hj' h1 h2 => ?_, ?_⟩
      · rcases Nat.eq_or_lt_of_le h1 with heq | hlt
        · subst heq; exact hle
        · exact hall j' hj' (by omega) h2
      · rw [hres, List.append_assoc]
        congr 2
        have hik' : i < (buf.take k).length := by rw [List.length_take]; omega
        rw [List.drop_eq_getElem_cons hik', List.getElem_take]
        rfl
    · rw [if_neg hle]
      refine ⟨i, le_refl _, hi, by omega, fun j' _ h1 h2 => by omega, ?_⟩
      rw [List.drop_take_self, List.append_nil]

/-- in a strictly increasing buffer the entries before the first one above `limit` are exactly the entries `≤ limit` -/
theorem mem_take_of_cut {buf : List ℕ} (hs : buf.Pairwise (· < ·)) {limit k : ℕ} (hk : k < buf.length) (hkl : limit < buf[k])
    (hall : ∀ j (hj : j < buf.length), j < k → buf[j] ≤ limit) (q : ℕ) : q ∈ buf.take k ↔ q ∈ buf ∧ q ≤ limit := by
  constructor
  · intro hq
    obtain ⟨j, hj, hjq⟩ := List.mem_iff_getElem.1 hq
    rw [List.length_take] at hj
    rw [List.getElem_take] at hjq
    subst hjq
    exact ⟨List.getElem_mem _, hall j (by omega) (by omega)⟩
  · rintro ⟨hq, hle⟩
    obtain ⟨j, hj, hjq⟩ := List.mem_iff_getElem.1 hq
    subst hjq
    have hjk : j < k := sorted_idx_lt hs hj hk (by omega)
    have : buf[j] = (buf.take k)[j]'(by rw [List.length_take]; omega) := by rw [List.getElem_take]
    rw [this]
    exact List.getElem_mem _

/-- **`store_primes(start, stop, primes)`** for `start ≤ stop` below the last 64-bit prime, a vector type that can hold
    `stop`, any core meeting `GenSpec`, any float outcome / batching: it terminates without error and appends exactly the
    primes of `[start, stop]`, increasing. (`hp`: a 64-bit prime above `stop` exists — for `stop ≤ 2^63` this is Bertrand's
    postulate, `storePrimes_spec_two63`; for every `stop < 18446744073709551557` it is the primality of that number.) -/
theorem storePrimes_spec (e : Env) (he : GenSpec e) (vmax start stop : ℕ) (hle : start ≤ stop) (hv : stop ≤ vmax)
    (hstop : stop < maxPrime64) (hp : ∃ p, p.Prime ∧ stop < p ∧ p ≤ umax) :
    ∃ l, storePrimes e vmax start stop = .ok l ∧ PrimesIn l start stop := by
  have hsu : stop ≤ umax := by unfold maxPrime64 at hstop; unfold umax; omega
  have hlim : min stop (maxPrime64 - 1) = stop := by omega
  obtain ⟨p, hp1, hp2, hp3⟩ := hp
  obtain ⟨s0, L0, h0, _, hb0⟩ := (Batch.first e he start stop (by omega) hsu).1 ⟨p, hp1, by omega, hp3⟩
  obtain ⟨s1, acc1, n1, L1, h1, hb1, hacc1, hsn1, hn1, hL1⟩ :=
    storeLoop1_spec e he start stop ⟨p, hp1, hp2, hp3⟩ (stop + 2) s0 [] start L0 hb0 (PrimesLt.nil start) (le_refl _)
      (by omega) (by omega)
  have hlen : 0 < s1.buf.length := by
    have := hb1.last
    rcases hbuf : s1.buf with _ | ⟨x, t⟩
    · rw [hbuf] at this; simp at this
    · simp
  have hlastidx : s1.buf[s1.buf.length - 1] = L1 := by
    have h2 := getLast?_eq_some_getElem hlen
    rw [hb1.last] at h2
    exact (Option.some.inj h2).symm
  obtain ⟨k, _, hk, hkl, hall, h2⟩ := storeLoop2_spec stop s1.buf s1.buf.length 0 acc1 (by omega)
    ⟨s1.buf.length - 1, Nat.zero_le _, by omega, by rw [hlastidx]; exact hL1⟩
  refine ⟨acc1 ++ s1.buf.take k, ?_, ?_⟩
  · unfold storePrimes
    rw [if_neg (by omega), if_neg (by omega), if_neg (by omega), h0]
    simp only [hlim, h1, h2, List.drop_zero]
    rw [if_neg (by omega)]
  · have hcut := mem_take_of_cut hb1.primes.1 hk hkl (fun j hj hjk => hall j hj (Nat.zero_le _) hjk)
    refine ⟨List.pairwise_append.2 ⟨hacc1.1, hb1.primes.1.sublist (List.take_sublist _ _), fun x hx y hy => ?_⟩, fun q => ?_⟩
    · have := ((hacc1.2 x).1 hx).2.2
      have := ((hb1.primes.2 y).1 ((hcut y).1 hy).1).2.1
      omega
    · rw [List.mem_append, hacc1.2 q, hcut q, hb1.primes.2 q]
      constructor
      · rintro (⟨h1, h2, h3⟩ | ⟨⟨h1, h2, h3⟩, h4⟩)
        · exact ⟨h1, h2, by omega⟩
        · exact ⟨h1, by omega, h4⟩
      · rintro ⟨h1, h2, h3⟩
        by_cases hq : q < n1
        · exact Or.inl ⟨h1, h2, hq⟩
        · exact Or.inr ⟨⟨h1, by omega, by omega⟩, h3⟩

/-- the guards of `store_primes`: an empty interval or a start above the last 64-bit prime stores nothing; a `stop` that the
    vector's value type cannot hold is rejected before any sieving -/
theorem storePrimes_guards (e : Env) (vmax start stop : ℕ) :
    (start > stop → storePrimes e vmax start stop = .ok []) ∧
    (start ≤ stop → start > maxPrime64 → storePrimes e vmax start stop = .ok []) ∧
    (start ≤ stop → start ≤ maxPrime64 → stop > vmax → storePrimes e vmax start stop = .error .narrow) := by
  refine ⟨fun h => ?_, fun h1 h2 => ?_, fun h1 h2 h3 => ?_⟩
  · unfold storePrimes; rw [if_pos h]
  · unfold storePrimes; rw [if_neg (by omega), if_pos h2]
  · unfold storePrimes; rw [if_neg (by omega), if_neg (by omega), if_pos h3]

theorem exists_prime_two63 (stop : ℕ) (h : stop ≤ 2 ^ 63) : ∃ p, p.Prime ∧ stop < p ∧ p ≤ umax := by
  obtain ⟨p, hp, h1, h2⟩ := Nat.exists_prime_lt_and_le_two_mul (2 ^ 63) (by norm_num)
  refine ⟨p, hp, by omega, ?_⟩
  have : p ≠ 2 * 2 ^ 63 := by
    rintro rfl
    exact Nat.not_prime_mul (by norm_num) (by norm_num) hp
  unfold umax; omega

theorem storePrimes_spec_two63 (e : Env) (he : GenSpec e) (vmax start stop : ℕ) (hle : start ≤ stop) (hv : stop ≤ vmax)
    (hstop : stop ≤ 2 ^ 63) : ∃ l, storePrimes e vmax start stop = .ok l ∧ PrimesIn l start stop :=
  storePrimes_spec e he vmax start stop hle hv (by unfold maxPrime64; omega) (exists_prime_two63 stop hstop)

end Pc.It
