/-
WP close, step 5 (T3 closed): the world with the BIT-EXACT `class Sieve`.  `World.tablesS c f wide` is `World.tables wide` with the sieve object
`T.S` := `sumSieve fitsU32 (concreteSieve c f primes) (refSieve primes)` — C17's bit-exact model of `class Sieve` (CPU configuration `c`, inline
`count` body `f`) over the constructor-built prime array on every segment whose byte count fits the `uint32_t` fields of the class
(`seg / 30 * 8 < 2^32`: every segment below 1.6·10^10), the reference semantics beyond (where the real constructor's arithmetic would wrap;
LoadBalancerS2 never hands out such a segment; `sumSieve_create_fits`).  `TablesOK` needs `B < 2^32` (the sieving primes of the levels `≤ π(y)` are
`uint32_t` in the class): every `y` of the 64-bit entry points is `< √(2^63) < 2^32`.
The entry points over `tablesS` — these are the statements PcProps/C01Closed.lean quotes.
-/
import PcProofs.CloseWorld2
import PcProofs.CloseSieve

namespace Pc.Close
open Nat Pc.Hard Pc.PhiVec Pc.Top Pc.PsCore Pc.LB PcGen.ApiConst Pc.PhiAlgProofs Pc.ClosePhi
open scoped Nat.Prime

namespace World

/-- the tables of one run with the bit-exact `class Sieve` -/
def tablesS (W : World) (c : Sieve.Cfg) (f : Sieve.StopFn) (wide : Bool) : Tables (Sieve.State ⊕ RefSieve) :=
  realTables (sumSieve fitsU32 (concreteSieve c f (realNT W.gen W.tthreads W.N).primes) (refSieve (realNT W.gen W.tthreads W.N).p))
    W.gen W.tthreads W.phiNeg wide W.N W.it

theorem p_lt_of_le_pi {K B : ℕ} (hK : K ≤ π B) (hB : B < 2 ^ 32) : Spec.p K < 2 ^ 32 := by
  rcases Nat.eq_zero_or_pos K with h0 | h0
  · rw [h0]; show Nat.nth Nat.Prime (0 - 1) < _; rw [Nat.zero_sub, Nat.nth_prime_zero_eq_two]; norm_num
  · exact lt_of_le_of_lt ((Spec.p_le_iff h0).2 hK) hB

/-- **`TablesOK` for the world with the bit-exact sieve** -/
theorem tablesS_ok (W : World) {B : ℕ} (h : W.OK B) (hB : B < 2 ^ 32) (c : Sieve.Cfg) (f : Sieve.StopFn) (wide : Bool) :
    TablesOK ((W.tablesS c f wide).withIt (P2L.patch (W.tablesS c f wide).it It.maxPrime64)) B :=
  realTables_ok _ W.gen W.tthreads W.phiNeg wide W.N (P2L.patch W.it It.maxPrime64) B (W.gen_spec h) h.phiVec
    (P2L.patch_spec (W.it_specTo h))
    (fun K hK => sumSieve_field
      (concreteSieve_realNT c f W.gen (W.gen_spec h) W.tthreads W.N K
        (le_trans hK (Nat.monotone_primeCounting h.size)) (p_lt_of_le_pi hK hB))
      (refSieve_field _ B (fun i h1 h2 =>
        (realNT_valid W.gen (W.gen_spec h) W.tthreads W.N).p_eq i h1 (le_trans h2 (Nat.monotone_primeCounting h.size))) K hK))

/-- the nested `pi_noprint(n)` calls are computed by the dispatcher over the same world (64-bit instantiations) -/
def NestedS (W : World) (c : Sieve.Cfg) (f : Sieve.StopFn) (B : ℕ) (pi : ℕ → ℕ) (x : ℤ) : Prop :=
  NestedByDispatcherW (W.tablesS c f false) B W.P W.order W.sched pi x

theorem nested_s (W : World) {B : ℕ} (h : W.OK B) (hB : B < 2 ^ 32) (c : Sieve.Cfg) (f : Sieve.StopFn) (pi : ℕ → ℕ) (x : ℤ)
    (hphi : ∀ n : ℕ, (n : ℤ) < x → maxCached < n → n ≤ meisselMax → W.PhiRunOK n)
    (hrec : W.NestedS c f B pi x) :
    ∀ n : ℕ, (n : ℤ) < x → n < 2 ^ 63 → pi n = π n :=
  nested_pi_eq_world (W.tablesS c f false) (W.tablesS_ok h hB c f false) (W.it_specTo h) maxPrime64_ge W.P W.order W.sched pi x
    (fun n hn _ => W.phiExec h n (hphi n hn)) hrec

/-- `pi_gourdon_64(x)` / `pi_gourdon_128(x)` -/
theorem pi_gourdon_s (W : World) {B : ℕ} (h : W.OK B) (hB : B < 2 ^ 32) (c : Sieve.Cfg) (f : Sieve.StopFn) (pi : ℕ → ℕ)
    (wide : Bool) (x : ℤ) (hx : InType wide x) (hsmall : x < 2 ∨ 2401 ≤ x) (threads : ℤ) (isPrint : Bool) (r : GRun)
    (hphi : ∀ n : ℕ, (n : ℤ) < x → maxCached < n → n ≤ meisselMax → W.PhiRunOK n)
    (hrec : W.NestedS c f B pi x)
    (hex : 2 ≤ x → GExecC (W.tablesS c f wide) B wide x.toNat r) :
    piGourdon (W.tablesS c f wide) pi wide x threads isPrint r = .ok (π x.toNat : ℤ) ∨
      piGourdon (W.tablesS c f wide) pi wide x threads isPrint r = .error (.hard .badRun) :=
  piGourdon_total_to (W.tablesS c f wide) (W.tablesS_ok h hB c f wide) (W.it_specTo h) maxPrime64_ge pi wide x hx hsmall threads
    isPrint r (W.nested_s h hB c f pi x hphi hrec) hex

/-- `pi_deleglise_rivat_64(x)` -/
theorem pi_deleglise_rivat_64_s (W : World) {B : ℕ} (h : W.OK B) (hB : B < 2 ^ 32) (c : Sieve.Cfg) (f : Sieve.StopFn)
    (pi : ℕ → ℕ) (x : ℤ) (hx : x < 2 ^ 63) (threads : ℤ) (isPrint : Bool) (r : DrRun)
    (hphi : ∀ n : ℕ, (n : ℤ) < x → maxCached < n → n ≤ meisselMax → W.PhiRunOK n)
    (hrec : W.NestedS c f B pi x)
    (hex : 2 ≤ x → DrExec (W.tablesS c f false) B false x.toNat r) :
    piDeleglieRivat (W.tablesS c f false) pi false x threads isPrint r = .ok (π x.toNat : ℤ) ∨
      piDeleglieRivat (W.tablesS c f false) pi false x threads isPrint r = .error (.hard .badRun) :=
  piDeleglieRivat64_world (W.tablesS c f false) (W.tablesS_ok h hB c f false) (W.it_specTo h) maxPrime64_ge W.P W.order W.sched pi x hx
    threads isPrint r (fun n hn _ => W.phiExec h n (hphi n hn)) hrec hex

/-- `pi(int128_t x)` over the tables of the route that is taken -/
theorem pi_api_s (W : World) {B : ℕ} (h : W.OK B) (hB : B < 2 ^ 32) (c : Sieve.Cfg) (f : Sieve.StopFn) (pi : ℕ → ℕ) (x : ℤ)
    (hx : x < 2 ^ 127) (threads : ℤ) (isPrint : Bool) (r : ApiRun)
    (hphi : ∀ n : ℕ, (n : ℤ) ≤ x → maxCached < n → n ≤ meisselMax → W.PhiRunOK n)
    (hrec : W.NestedS c f B pi x)
    (hex : (maxCached : ℤ) < x →
      ApiExecC (W.tablesS c f (decide ((PiApi.int64Max : ℤ) < x))) B (decide ((PiApi.int64Max : ℤ) < x)) x.toNat r) :
    piApi128 (W.tablesS c f (decide ((PiApi.int64Max : ℤ) < x))) W.phi pi x threads isPrint r = .ok (π x.toNat : ℤ) ∨
      piApi128 (W.tablesS c f (decide ((PiApi.int64Max : ℤ) < x))) W.phi pi x threads isPrint r = .error (.hard .badRun) := by
  have c0 : (PiApi.int64Max : ℤ) = 2 ^ 63 - 1 := by unfold PiApi.int64Max; norm_num
  have c1 : (maxCached : ℤ) = 30719 := rfl
  have l2 : meisselMax = 100000000 := rfl
  by_cases hw : (PiApi.int64Max : ℤ) < x
  · rw [decide_eq_true hw] at hex ⊢
    have hex' := hex (by omega)
    unfold piApi128
    rw [if_neg (by omega), if_neg (by omega)]
    exact W.pi_gourdon_s h hB c f pi true x (by unfold InType; simpa using hx) (Or.inr (by omega)) threads isPrint r.gourdon
      (fun n hn => hphi n (by omega)) hrec (fun _ => hex'.gourdon (by omega))
  · rw [decide_eq_false hw] at hex ⊢
    have hd : decide ((PiApi.int64Max : ℤ) < x) = false := decide_eq_false hw
    exact piApi128_world (W.tablesS c f false) (W.tablesS_ok h hB c f false) (W.it_specTo h) maxPrime64_ge W.P W.order W.sched pi x hx
      threads isPrint r (fun n hn _ => W.phiExec h n (hphi n hn)) hrec (by rw [hd]; exact hex)

end World
end Pc.Close
