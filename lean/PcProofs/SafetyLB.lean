/-
wp-safety / C16 (LoadBalancerS2): whole-history int64 safety.

Part A: a kernel-checked REFUTATION of "every history of the integer model from `S2.init` with
`sieve_limit ≤ 2^62 + 2^33` keeps all signed 64-bit intermediates below 2^63": the concrete history recorded on the
REAL object (`harness/ops_safety_lb.cpp`, op `s2lb_peak 10^31 2^61 12345 2 0 1 200000 0 0`: 2 threads, constant clock,
worker 0 returns 34 times before worker 1 makes its first call) is a behaviour of the model and its 34th call
computes `low_ += segment_size_ * segments_ = 5465968042385080320 + 6521909556962918400 ≥ 2^63`
(UBSan on the real object: LoadBalancerS2.cpp:130:8 signed integer overflow with exactly these operands).

Part B: the positive half for small ranges (see below).
-/
import PcModel.DispenserGen
import PcProofs.Dispenser
import PcProofs.Dispenser2

namespace Pc.LB.S2

/-! ## behaviours of the integer model -/

/-- the hand stored for worker `w`, if it ever called -/
def lookupHand (w : Nat) : List (Nat × Hand) → Option Hand
  | [] => none
  | (v, h) :: hs => if v = w then some h else lookupHand w hs

/-- `while (loadBalancer.get_work(thread))`: a worker that was told `false` never calls again -/
def liveOk (s : State) (e : Ev) : Bool :=
  match lookupHand e.w s.hands with
  | none => true
  | some h => h.work

/-- the zero-duration choice: whenever `update_number_of_segments` runs, `next_runtime = 0 < min_secs`,
    so `segments_ *= 2` -/
def zeroDurOk (cfg : Config) (s : State) (e : Ev) : Bool :=
  !usesChoice cfg s (s.sum + e.tsum) e.tlow || e.osegs == 2 * e.tsegs

/-- one step of a behaviour: everything `S2.ok` asks for EXCEPT the absence of overflow -/
def behStep (cfg : Config) (s : State) (e : Ev) : Bool :=
  handOk s e && choiceOk cfg s e && outOk cfg s e && liveOk s e

/-- `es` is a behaviour of the integer model from `s` (exact arithmetic, no overflow check) -/
def behaves (cfg : Config) : State → List Ev → Bool
  | _, [] => true
  | s, e :: es => behStep cfg s e && behaves cfg (next cfg s e) es

/-- every step of the history keeps all int64 intermediates below 2^63 -/
def allNoOvf (cfg : Config) : State → List Ev → Bool
  | _, [] => true
  | s, e :: es => noOvf cfg s e && allNoOvf cfg (next cfg s e) es

/-- every step takes the zero-duration choice -/
def allZeroDur (cfg : Config) : State → List Ev → Bool
  | _, [] => true
  | s, e :: es => zeroDurOk cfg s e && allZeroDur cfg (next cfg s e) es

def run (cfg : Config) : State → List Ev → State
  | s, [] => s
  | s, e :: es => run cfg (next cfg s e) es

/-! ## Part A: the overflowing history (x = 10^31, sieve_limit = 2^61, 2 threads, no status output) -/

def wX : Nat := 10000000000000000000000000000000
def wLimit : Nat := 2305843009213693952
def wCfg : Config := mkConfig genConsts wLimit 2 false
def wInit : State := init genConsts wX wLimit 2 false

/-- calls 0..32 of worker 0 (ThreadData in, answer out), as recorded on the real object -/
def wPre : List Ev := [
    ⟨0, 0, 0, 0, 0, 0, 0, true, 0, 1, 56234160, 0⟩,
    ⟨0, 0, 1, 56234160, 3162280807139760, 0, 0, true, 56234160, 1, 56234160, 3162280807139760⟩,
    ⟨0, 56234160, 1, 56234160, 9486842308950960, 0, 0, true, 112468320, 2, 56234160, 12649123116090720⟩,
    ⟨0, 112468320, 2, 56234160, 37947369123335520, 0, 0, true, 224936640, 4, 56234160, 50596492239426240⟩,
    ⟨0, 224936640, 4, 56234160, 151789476268405440, 0, 0, true, 449873280, 8, 56234160, 202385968507831680⟩,
    ⟨0, 449873280, 8, 56234160, 607157904623748480, 0, 0, true, 899746560, 16, 56234160, 809543873131580160⟩,
    ⟨0, 899746560, 16, 56234160, 2428631617595247360, 0, 0, true, 1799493120, 32, 56234160, 3238175490726827520⟩,
    ⟨0, 1799493120, 32, 56234160, 9714526468581496320, 0, 0, true, 3598986240, 64, 56234160, 12952701959308323840⟩,
    ⟨0, 3598986240, 64, 56234160, 38858105870726999040, 0, 0, true, 7197972480, 128, 56234160, 51810807830035322880⟩,
    ⟨0, 7197972480, 128, 56234160, 155432423475710023680, 0, 0, true, 14395944960, 256, 56234160, 207243231305745346560⟩,
    ⟨0, 14395944960, 256, 56234160, 621729693888444149760, 0, 0, true, 28791889920, 512, 56234160, 828972925194189496320⟩,
    ⟨0, 28791889920, 512, 56234160, 2486918775524984709120, 0, 0, true, 57583779840, 1024, 56234160, 3315891700719174205440⟩,
    ⟨0, 57583779840, 1024, 56234160, 9947675102042355056640, 0, 0, true, 115167559680, 2048, 56234160, 13263566802761529262080⟩,
    ⟨0, 115167559680, 2048, 56234160, 39790700408054252666880, 0, 0, true, 230335119360, 4096, 56234160, 53054267210815781928960⟩,
    ⟨0, 230335119360, 4096, 56234160, 159162801631986675548160, 0, 0, true, 460670238720, 8192, 56234160, 212217068842802457477120⟩,
    ⟨0, 460670238720, 8192, 56234160, 636651206527486031953920, 0, 0, true, 921340477440, 16384, 56234160, 848868275370288489431040⟩,
    ⟨0, 921340477440, 16384, 56234160, 2546604826109022787338240, 0, 0, true, 1842680954880, 32768, 56234160, 3395473101479311276769280⟩,
    ⟨0, 1842680954880, 32768, 56234160, 10186419304434248468398080, 0, 0, true, 3685361909760, 65536, 56234160, 13581892405913559745167360⟩,
    ⟨0, 3685361909760, 65536, 56234160, 40745677217733308511682560, 0, 0, true, 7370723819520, 131072, 56234160, 54327569623646868256849920⟩,
    ⟨0, 7370723819520, 131072, 56234160, 162982708870925863322910720, 0, 0, true, 14741447639040, 262144, 56234160, 217310278494572731579760640⟩,
    ⟨0, 14741447639040, 262144, 56234160, 651930835483688711844003840, 0, 0, true, 29482895278080, 524288, 56234160, 869241113978261443423764480⟩,
    ⟨0, 29482895278080, 524288, 56234160, 2607723341934725364480737280, 0, 0, true, 58965790556160, 1048576, 56234160, 3476964455912986807904501760⟩,
    ⟨0, 58965790556160, 1048576, 56234160, 10430893367738842492132392960, 0, 0, true, 117931581112320, 2097152, 56234160, 13907857823651829300036894720⟩,
    ⟨0, 117931581112320, 2097152, 56234160, 41723573470955252036948459520, 0, 0, true, 235863162224640, 4194304, 56234160, 55631431294607081336985354240⟩,
    ⟨0, 235863162224640, 4194304, 56234160, 166894293883820772284631613440, 0, 0, true, 471726324449280, 8388608, 56234160, 222525725178427853621616967680⟩,
    ⟨0, 471726324449280, 8388608, 56234160, 667577175535282617412202004480, 0, 0, true, 943452648898560, 16777216, 56234160, 890102900713710471033818972160⟩,
    ⟨0, 943452648898560, 16777216, 56234160, 2670308702141129526196159119360, 0, 0, true, 1886905297797120, 33554432, 76789200, 3560411602854839997229978091520⟩,
    ⟨0, 1886905297797120, 33554432, 76789200, 16362628535481352630588302950400, 0, 0, true, 4463523287531520, 67108864, 124153920, 19923040138336192627818281041920⟩,
    ⟨0, 4463523287531520, 67108864, 124153920, 143797988056129303004924325396480, 0, 0, true, 12795351819878400, 134217728, 219558000, 163721028194465495632742606438400⟩,
    ⟨0, 12795351819878400, 134217728, 219558000, 1622518560164243128569166823424000, 0, 0, true, 42263927744102400, 268435456, 409274400, 1786239588358708624201909429862400⟩,
    ⟨0, 42263927744102400, 268435456, 409274400, 21356593848768160473894802056806400, 0, 0, true, 152127687937228800, 536870912, 786796560, 23142833437126869098096711486668800⟩,
    ⟨0, 152127687937228800, 536870912, 786796560, 306948637837526925536641290464133120, 0, 0, true, 574535874662891520, 1073741824, 1518500400, 330091471274653794634738001950801920⟩,
    ⟨0, 574535874662891520, 1073741824, 1518500400, 4531992022716246486040635510462873600, 0, 0, true, 2205013263903621120, 2147483648, 1518500400, 4862083493990900280675373512413675520⟩]

/-- call 33 of worker 0: the answer is `false`, and `low_ += segment_size_ * segments_` leaves int64 -/
def wLast : Ev :=
  ⟨0, 2205013263903621120, 2147483648, 1518500400, 454828489148763213245697737921396736, 0, 0, false, 5465968042385080320, 4294967296, 1518500400, 5316911983139663493921071250335072256⟩

/-- the state of the balancer before call 33 -/
def wState33 : State := run wCfg wInit wPre

theorem wLimit_eq : wLimit = 2 ^ 61 := by decide
theorem wX_eq : wX = 10 ^ 31 := by decide

theorem wPre_behaves : behaves wCfg wInit wPre = true := by decide +kernel
theorem wPre_zeroDur : allZeroDur wCfg wInit wPre = true := by decide +kernel
theorem wPre_noOvf : allNoOvf wCfg wInit wPre = true := by decide +kernel
theorem wState33_low : wState33.low = 5465968042385080320 ∧ wState33.segs = 2147483648 ∧ wState33.size = 1518500400 := by
  decide +kernel
theorem wLast_behStep : behStep wCfg wState33 wLast = true := by decide +kernel
theorem wLast_zeroDur : zeroDurOk wCfg wState33 wLast = true := by decide +kernel
theorem wLast_peak : peak wCfg wState33 wLast = 11987877599347998720 := by decide +kernel
theorem wLast_ovf : noOvf wCfg wState33 wLast = false := by decide +kernel

/-- workers are numbered below `threads` -/
def workersBelow (n : Nat) : List Ev → Bool
  | [] => true
  | e :: es => decide (e.w < n) && workersBelow n es

/-- **C16 witness.**  The history `wPre ++ [wLast]` (34 calls of `get_work`, recorded on the real `LoadBalancerS2`
    under a constant clock) has `sieve_limit = 2^61 ≤ 2^62 + 2^33` (the bound the public API guarantees), is a
    behaviour of the integer model from `S2.init` (ThreadData handed back unchanged, outputs as the model computes
    them, no call after `false`, workers `< threads`), takes the zero-duration choice `segments_ *= 2` everywhere,
    is overflow-free for its first 33 calls, and its last call computes the int64 value
    `low_ + segment_size_ * segments_ = 11987877599347998720 ≥ 2^63`: `noOvf` is false. -/
theorem s2_history_overflow_witness :
    wCfg.limit ≤ 2 ^ 62 + 2 ^ 33 ∧ wX ≤ 10 ^ 31 ∧
    workersBelow wCfg.threads (wPre ++ [wLast]) = true ∧
    behaves wCfg wInit (wPre ++ [wLast]) = true ∧
    allZeroDur wCfg wInit (wPre ++ [wLast]) = true ∧
    allNoOvf wCfg wInit wPre = true ∧
    noOvf wCfg (run wCfg wInit wPre) wLast = false ∧
    peak wCfg (run wCfg wInit wPre) wLast = 5465968042385080320 + 1518500400 * 4294967296 ∧
    two63 ≤ peak wCfg (run wCfg wInit wPre) wLast := by
  refine ⟨by decide +kernel, by decide +kernel, by decide +kernel, by decide +kernel, by decide +kernel,
    wPre_noOvf, wLast_ovf, by decide +kernel, by decide +kernel⟩

/-- the whole-history safety claim for the range the public API guarantees is FALSE of the integer model
    (and of the real object: UBSan reports the same addition at LoadBalancerS2.cpp:130) -/
theorem s2_whole_history_safety_refuted :
    ¬ ∀ (x limit threads : Nat) (print : Bool) (es : List Ev),
        x ≤ 10 ^ 31 → limit ≤ 2 ^ 62 + 2 ^ 33 → 1 ≤ threads → workersBelow threads es = true →
        behaves (mkConfig genConsts limit threads print) (init genConsts x limit threads print) es = true →
        allNoOvf (mkConfig genConsts limit threads print) (init genConsts x limit threads print) es = true := by
  intro h
  have := h wX wLimit 2 false (wPre ++ [wLast]) (by decide +kernel) (by decide +kernel) (by decide)
    (by decide +kernel) (by decide +kernel)
  revert this
  decide +kernel

/-! ## Part B: the positive half (partial)

What IS true of every history, and what one step needs.  The real constraint on the float-derived choice is
`SegsAtMostDouble`: `factor = in_between(0.5, factor, 2.0)`, then either `segments_ *= 2` or
`segments_ = max((int64_t) std::round(segments_ * factor), 1)` with `segments_ = thread.segments` just assigned,
so the new value is `≤ 2 * thread.segments` (and `≥ 1`). -/

/-- the true bound on the float-derived choice: `factor ≤ 2.0` and `std::round` -/
@[reducible] def SegsAtMostDouble (e : Ev) : Prop := e.osegs ≤ 2 * e.tsegs

theorem getHand_setHand (w v : Nat) (h : Hand) (hs : List (Nat × Hand)) :
    getHand v (setHand w h hs) = if v = w then h else getHand v hs := by
  induction hs with
  | nil =>
    by_cases hv : v = w
    · subst hv; simp [setHand, getHand]
    · have : ¬ w = v := fun h => hv h.symm
      simp [setHand, getHand, hv, this]
  | cons p ps ih =>
    obtain ⟨u, g⟩ := p
    by_cases hu : u = w
    · subst hu
      by_cases hv : v = u
      · subst hv; simp [setHand, getHand]
      · have : ¬ u = v := fun h => hv h.symm
        simp [setHand, getHand, hv, this]
    · by_cases hv : v = w
      · subst hv
        by_cases huv : u = v
        · exact absurd huv hu
        · simp [setHand, getHand, hu, ih]
      · simp only [setHand, hu, if_false, getHand, ih, hv]

/-- every outstanding hand lies below `low_`: `h.low + h.segs * h.size ≤ low_` -/
def HandsBelow (s : State) : Prop :=
  ∀ w, (getHand w s.hands).low + (getHand w s.hands).segs * (getHand w s.hands).size ≤ s.low

theorem handsBelow_next (cfg : Config) (s : State) (e : Ev) (h : HandsBelow s) : HandsBelow (next cfg s e) := by
  intro w
  have hn : (next cfg s e).hands = setHand e.w ⟨s.low, (next cfg s e).segs, (next cfg s e).size,
      decide (s.low < cfg.limit)⟩ s.hands := rfl
  have hl : (next cfg s e).low = s.low + (next cfg s e).size * (next cfg s e).segs := rfl
  rw [hn, getHand_setHand, hl]
  by_cases hw : w = e.w
  · simp only [hw, if_true]
    rw [Nat.mul_comm]; exact Nat.le_refl _
  · simp only [hw, if_false]
    have := h w
    omega

/-- **whole-history invariant** (no restriction on range, threads or durations): the chunk a worker hands back
    was cut off below the current `low_` -/
theorem handsBelow_run (cfg : Config) (es : List Ev) (s : State) (h : HandsBelow s) : HandsBelow (run cfg s es) := by
  induction es generalizing s with
  | nil => exact h
  | cons e es ih => exact ih _ (handsBelow_next cfg s e h)

theorem handsBelow_init (c : Consts) (x limit threads : Nat) (print : Bool) :
    HandsBelow (init c x limit threads print) := by
  intro w
  have : (init c x limit threads print).hands = [] := by simp only [init]; split <;> rfl
  rw [this]; simp [getHand]

/-- in every history from `S2.init`, a call that hands back what it was handed (`handOk`) satisfies
    `thread.segments * thread.segment_size ≤ low_` -/
theorem hand_product_le_low (c : Consts) (x limit threads : Nat) (print : Bool) (cfg : Config) (es : List Ev) (e : Ev)
    (hh : handOk (run cfg (init c x limit threads print) es) e = true) :
    e.tsegs * e.tsize ≤ (run cfg (init c x limit threads print) es).low := by
  have hb := handsBelow_run cfg es _ (handsBelow_init c x limit threads print) e.w
  simp only [handOk, Bool.and_eq_true, beq_iff_eq] at hh
  obtain ⟨⟨_, h2⟩, h3⟩ := hh
  rw [h2, h3] at hb
  omega

theorem next_segs_le (cfg : Config) (s : State) (e : Ev) :
    (next cfg s e).segs ≤ max s.segs (max e.tsegs e.osegs) := by
  have : (next cfg s e).segs = (update cfg s (s.sum + e.tsum) e.tlow e.tsegs e.osegs).2.1 := rfl
  rw [this]; unfold update
  split
  · split
    · simp only; omega
    · split
      · simp only; omega
      · split <;> (simp only; omega)
  · simp only; omega

/-- **one step, hypotheses over the hand** (PARTIAL).  With `smin ≤` every segment size in play `≤ R * smin`,
    the handed-back chunk below `low_` (`hand_product_le_low`: true in every history), the current `segments_`
    obtained the same way (`segments_ * smin ≤ 2 * low_`), the TRUE float bound `SegsAtMostDouble`, and
    `low_ * (1 + 4 R (threads + 1)) < 2^63`, no signed 64-bit intermediate of this `get_work` leaves int64.
    MISSING for a whole-history theorem: (i) a bound on `low_` itself after the first `false` answer (each of the
    other `threads - 1` workers adds another `segment_size_ * segments_`; needs counting the retired workers),
    (ii) `segments_ * smin ≤ 2 * low_` as an invariant (it is restored by every updating call by this lemma's own
    argument, but the early-return branches re-install `thread.segments` of an older hand), (iii) for
    `sqrt(limit) > L2_segment_size` the ratio `R` between the current size and the size of an old hand is
    `sqrt(limit) / x^(1/4)`, not a constant.  The experiments (notes/wp-safety-lb.md) show that the whole-history
    claim is FALSE from `limit = 2^52` on with 1024 workers (2^56: 64, 2^60: 8, 2^61: 1-2 workers), so no theorem
    with `L = 2^54, T = 2^10` exists; no overflowing history was found for `limit ≤ 2^51`. -/
theorem s2_step_no_overflow_of_hand_partial (cfg : Config) (s : State) (e : Ev) (smin R : Nat)
    (hdbl : SegsAtMostDouble e)
    (hsmin : 1 ≤ smin) (hR : 1 ≤ R) (hs1 : 1 ≤ s.segs)
    (htsize : smin ≤ e.tsize)
    (hhand : e.tsegs * e.tsize ≤ s.low)
    (hsegs : s.segs * smin ≤ 2 * s.low)
    (hsz : s.size ≤ R * smin) (hsz' : (next cfg s e).size ≤ R * smin)
    (hnum : s.low + 4 * R * s.low * (cfg.threads + 1) < two63)
    (hsum : s.sum.natAbs ≤ 2 ^ 126 - 1) (htsum : e.tsum.natAbs ≤ 2 ^ 126) :
    noOvf cfg s e = true := by
  have hp := peak_le cfg s e
  have hns := next_segs_le cfg s e
  -- segs bounds, scaled by smin
  have ht : e.tsegs * smin ≤ s.low := Nat.le_trans (Nat.mul_le_mul_left _ htsize) hhand
  have ho : e.osegs * smin ≤ 2 * s.low := by
    have : e.osegs * smin ≤ 2 * e.tsegs * smin := Nat.mul_le_mul_right _ hdbl
    have h2 : 2 * e.tsegs * smin = 2 * (e.tsegs * smin) := Nat.mul_assoc _ _ _
    omega
  have hn : (next cfg s e).segs * smin ≤ 2 * s.low := by
    have h1 : (next cfg s e).segs * smin ≤ (max s.segs (max e.tsegs e.osegs)) * smin := Nat.mul_le_mul_right _ hns
    have h2 : (max s.segs (max e.tsegs e.osegs)) * smin ≤ 2 * s.low := by
      rcases Nat.le_total s.segs (max e.tsegs e.osegs) with h | h
      · rw [Nat.max_eq_right h]
        rcases Nat.le_total e.tsegs e.osegs with h' | h'
        · rw [Nat.max_eq_right h']; exact ho
        · rw [Nat.max_eq_left h']; omega
      · rw [Nat.max_eq_left h]; exact hsegs
    omega
  -- the four candidates of the peak
  have hsm : smin ≤ 2 * s.low := Nat.le_trans (Nat.le_mul_of_pos_left _ hs1) hsegs
  have c1 : (next cfg s e).size * (next cfg s e).segs ≤ R * (2 * s.low) := by
    have : (next cfg s e).size * (next cfg s e).segs ≤ R * smin * (next cfg s e).segs := Nat.mul_le_mul_right _ hsz'
    have h2 : R * smin * (next cfg s e).segs = R * ((next cfg s e).segs * smin) := by
      rw [Nat.mul_assoc, Nat.mul_comm smin]
    have h3 : R * ((next cfg s e).segs * smin) ≤ R * (2 * s.low) := Nat.mul_le_mul_left _ hn
    omega
  have c2 : s.size + s.size ≤ 2 * (R * (2 * s.low)) := by
    have : R * smin ≤ R * (2 * s.low) := Nat.mul_le_mul_left _ hsm
    omega
  have c3 : e.osegs ≤ 2 * s.low := Nat.le_trans (Nat.le_mul_of_pos_right _ hsmin) ho
  have c4 : (s.size + s.size) * e.osegs * cfg.threads ≤ 2 * R * (2 * s.low) * cfg.threads := by
    refine Nat.mul_le_mul_right _ ?_
    have h1 : (s.size + s.size) * e.osegs ≤ (2 * (R * smin)) * e.osegs := Nat.mul_le_mul_right _ (by omega)
    have h2 : (2 * (R * smin)) * e.osegs = 2 * R * (e.osegs * smin) := by
      rw [Nat.mul_assoc 2 R, Nat.mul_assoc 2, Nat.mul_assoc R, Nat.mul_comm smin]
    have h3 : 2 * R * (e.osegs * smin) ≤ 2 * R * (2 * s.low) := Nat.mul_le_mul_left _ ho
    omega
  -- linearise: A = R * low, B = R * low * threads
  have eA : R * (2 * s.low) = 2 * (R * s.low) := by rw [Nat.mul_left_comm]
  have eB : 2 * R * (2 * s.low) * cfg.threads = 4 * (R * s.low * cfg.threads) := by
    rw [Nat.mul_assoc 2 R, eA]
    have : 2 * (2 * (R * s.low)) = 4 * (R * s.low) := by omega
    rw [this, Nat.mul_assoc]
  have eN : 4 * R * s.low * (cfg.threads + 1) = 4 * (R * s.low * cfg.threads) + 4 * (R * s.low) := by
    rw [Nat.mul_assoc 4 R, Nat.mul_assoc 4, Nat.mul_add, Nat.mul_one, Nat.mul_add]
  have hRl : s.low ≤ R * s.low := Nat.le_mul_of_pos_left _ hR
  rw [eA] at c1 c2
  rw [eB] at c4
  rw [eN] at hnum
  simp only [noOvf, Bool.and_eq_true]
  refine ⟨decide_eq_true ?_, decide_eq_true ?_⟩
  · omega
  · have e6 : (2 : Nat) ^ 126 = 85070591730234615865843651857942052864 := by decide
    rw [e6] at hsum htsum
    simp only [two127]
    omega

/-- the hypotheses are satisfiable on a non-trivial state: call 10 of the recorded history (low_ = 14395944960,
    segments_ = 256, segment_size_ = 56234160 = smin, R = 1, 2 threads) -/
example :
    let s := run wCfg wInit (wPre.take 10)
    let e := wPre.getD 10 wLast
    SegsAtMostDouble e ∧ 1 ≤ s.segs ∧ 56234160 ≤ e.tsize ∧ e.tsegs * e.tsize ≤ s.low ∧
      s.segs * 56234160 ≤ 2 * s.low ∧ s.size ≤ 1 * 56234160 ∧ (next wCfg s e).size ≤ 1 * 56234160 ∧
      s.low + 4 * 1 * s.low * (wCfg.threads + 1) < two63 ∧ s.sum.natAbs ≤ 2 ^ 126 - 1 ∧ e.tsum.natAbs ≤ 2 ^ 126 ∧
      noOvf wCfg s e = true := by
  decide +kernel

example : HandsBelow wInit := handsBelow_init _ _ _ _ _
example : handOk (run wCfg wInit (wPre.take 10)) (wPre.getD 10 wLast) = true := by decide +kernel

end Pc.LB.S2

#print axioms Pc.LB.S2.s2_history_overflow_witness
#print axioms Pc.LB.S2.s2_whole_history_safety_refuted
#print axioms Pc.LB.S2.handsBelow_run
#print axioms Pc.LB.S2.hand_product_le_low
#print axioms Pc.LB.S2.s2_step_no_overflow_of_hand_partial
