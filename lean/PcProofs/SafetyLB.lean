/-
wp-safety / C16 (LoadBalancerS2): whole-history int64 safety.

Part A: a kernel-checked REFUTATION of "every history of the integer model from `S2.init` with
`sieve_limit ≤ 2^62 + 2^33` keeps all signed 64-bit intermediates below 2^63": the concrete history recorded on the
REAL object (`harness/ops_safety_lb.cpp`, op `s2lb_peak 10^31 2^61 12345 2 0 1 200000 0 0`: 2 threads, constant clock,
worker 0 returns 34 times before worker 1 makes its first call) is a behaviour of the model and its 34th call
computes `low_ += segment_size_ * segments_ = 5465968042385080320 + 6521909556962918400 ≥ 2^63`
(UBSan on the real object: LoadBalancerS2.cpp:130:8 signed integer overflow with exactly these operands).

Part B: the positive half for small ranges (see below).
-/
import PcModel.DispenserGen
import PcProofs.Dispenser

namespace Pc.LB.S2

/-! ## behaviours of the integer model -/

/-- the hand stored for worker `w`, if it ever called -/
def lookupHand (w : Nat) : List (Nat × Hand) → Option Hand
  | [] => none
  | (v, h) :: hs => if v = w then some h else lookupHand w hs

/-- `while (loadBalancer.get_work(thread))`: a worker that was told `false` never calls again -/
def liveOk (s : State) (e : Ev) : Bool :=
  match lookupHand e.w s.hands with
  | none => true
  | some h => h.work

/-- the zero-duration choice: whenever `update_number_of_segments` runs, `next_runtime = 0 < min_secs`,
    so `segments_ *= 2` -/
def zeroDurOk (cfg : Config) (s : State) (e : Ev) : Bool :=
  !usesChoice cfg s (s.sum + e.tsum) e.tlow || e.osegs == 2 * e.tsegs

/-- one step of a behaviour: everything `S2.ok` asks for EXCEPT the absence of overflow -/
def behStep (cfg : Config) (s : State) (e : Ev) : Bool :=
  handOk s e && choiceOk cfg s e && outOk cfg s e && liveOk s e

/-- `es` is a behaviour of the integer model from `s` (exact arithmetic, no overflow check) -/
def behaves (cfg : Config) : State → List Ev → Bool
  | _, [] => true
  | s, e :: es => behStep cfg s e && behaves cfg (next cfg s e) es

/-- every step of the history keeps all int64 intermediates below 2^63 -/
def allNoOvf (cfg : Config) : State → List Ev → Bool
  | _, [] => true
  | s, e :: es => noOvf cfg s e && allNoOvf cfg (next cfg s e) es

/-- every step takes the zero-duration choice -/
def allZeroDur (cfg : Config) : State → List Ev → Bool
  | _, [] => true
  | s, e :: es => zeroDurOk cfg s e && allZeroDur cfg (next cfg s e) es

def run (cfg : Config) : State → List Ev → State
  | s, [] => s
  | s, e :: es => run cfg (next cfg s e) es

/-! ## Part A: the overflowing history (x = 10^31, sieve_limit = 2^61, 2 threads, no status output) -/

def wX : Nat := 10000000000000000000000000000000
def wLimit : Nat := 2305843009213693952
def wCfg : Config := mkConfig genConsts wLimit 2 false
def wInit : State := init genConsts wX wLimit 2 false

/-- calls 0..32 of worker 0 (ThreadData in, answer out), as recorded on the real object -/
def wPre : List Ev := [
    ⟨0, 0, 0, 0, 0, 0, 0, true, 0, 1, 56234160, 0⟩,
    ⟨0, 0, 1, 56234160, 3162280807139760, 0, 0, true, 56234160, 1, 56234160, 3162280807139760⟩,
    ⟨0, 56234160, 1, 56234160, 9486842308950960, 0, 0, true, 112468320, 2, 56234160, 12649123116090720⟩,
    ⟨0, 112468320, 2, 56234160, 37947369123335520, 0, 0, true, 224936640, 4, 56234160, 50596492239426240⟩,
    ⟨0, 224936640, 4, 56234160, 151789476268405440, 0, 0, true, 449873280, 8, 56234160, 202385968507831680⟩,
    ⟨0, 449873280, 8, 56234160, 607157904623748480, 0, 0, true, 899746560, 16, 56234160, 809543873131580160⟩,
    ⟨0, 899746560, 16, 56234160, 2428631617595247360, 0, 0, true, 1799493120, 32, 56234160, 3238175490726827520⟩,
    ⟨0, 1799493120, 32, 56234160, 9714526468581496320, 0, 0, true, 3598986240, 64, 56234160, 12952701959308323840⟩,
    ⟨0, 3598986240, 64, 56234160, 38858105870726999040, 0, 0, true, 7197972480, 128, 56234160, 51810807830035322880⟩,
    ⟨0, 7197972480, 128, 56234160, 155432423475710023680, 0, 0, true, 14395944960, 256, 56234160, 207243231305745346560⟩,
    ⟨0, 14395944960, 256, 56234160, 621729693888444149760, 0, 0, true, 28791889920, 512, 56234160, 828972925194189496320⟩,
    ⟨0, 28791889920, 512, 56234160, 2486918775524984709120, 0, 0, true, 57583779840, 1024, 56234160, 3315891700719174205440⟩,
    ⟨0, 57583779840, 1024, 56234160, 9947675102042355056640, 0, 0, true, 115167559680, 2048, 56234160, 13263566802761529262080⟩,
    ⟨0, 115167559680, 2048, 56234160, 39790700408054252666880, 0, 0, true, 230335119360, 4096, 56234160, 53054267210815781928960⟩,
    ⟨0, 230335119360, 4096, 56234160, 159162801631986675548160, 0, 0, true, 460670238720, 8192, 56234160, 212217068842802457477120⟩,
    ⟨0, 460670238720, 8192, 56234160, 636651206527486031953920, 0, 0, true, 921340477440, 16384, 56234160, 848868275370288489431040⟩,
    ⟨0, 921340477440, 16384, 56234160, 2546604826109022787338240, 0, 0, true, 1842680954880, 32768, 56234160, 3395473101479311276769280⟩,
    ⟨0, 1842680954880, 32768, 56234160, 10186419304434248468398080, 0, 0, true, 3685361909760, 65536, 56234160, 13581892405913559745167360⟩,
    ⟨0, 3685361909760, 65536, 56234160, 40745677217733308511682560, 0, 0, true, 7370723819520, 131072, 56234160, 54327569623646868256849920⟩,
    ⟨0, 7370723819520, 131072, 56234160, 162982708870925863322910720, 0, 0, true, 14741447639040, 262144, 56234160, 217310278494572731579760640⟩,
    ⟨0, 14741447639040, 262144, 56234160, 651930835483688711844003840, 0, 0, true, 29482895278080, 524288, 56234160, 869241113978261443423764480⟩,
    ⟨0, 29482895278080, 524288, 56234160, 2607723341934725364480737280, 0, 0, true, 58965790556160, 1048576, 56234160, 3476964455912986807904501760⟩,
    ⟨0, 58965790556160, 1048576, 56234160, 10430893367738842492132392960, 0, 0, true, 117931581112320, 2097152, 56234160, 13907857823651829300036894720⟩,
    ⟨0, 117931581112320, 2097152, 56234160, 41723573470955252036948459520, 0, 0, true, 235863162224640, 4194304, 56234160, 55631431294607081336985354240⟩,
    ⟨0, 235863162224640, 4194304, 56234160, 166894293883820772284631613440, 0, 0, true, 471726324449280, 8388608, 56234160, 222525725178427853621616967680⟩,
    ⟨0, 471726324449280, 8388608, 56234160, 667577175535282617412202004480, 0, 0, true, 943452648898560, 16777216, 56234160, 890102900713710471033818972160⟩,
    ⟨0, 943452648898560, 16777216, 56234160, 2670308702141129526196159119360, 0, 0, true, 1886905297797120, 33554432, 76789200, 3560411602854839997229978091520⟩,
    ⟨0, 1886905297797120, 33554432, 76789200, 16362628535481352630588302950400, 0, 0, true, 4463523287531520, 67108864, 124153920, 19923040138336192627818281041920⟩,
    ⟨0, 4463523287531520, 67108864, 124153920, 143797988056129303004924325396480, 0, 0, true, 12795351819878400, 134217728, 219558000, 163721028194465495632742606438400⟩,
    ⟨0, 12795351819878400, 134217728, 219558000, 1622518560164243128569166823424000, 0, 0, true, 42263927744102400, 268435456, 409274400, 1786239588358708624201909429862400⟩,
    ⟨0, 42263927744102400, 268435456, 409274400, 21356593848768160473894802056806400, 0, 0, true, 152127687937228800, 536870912, 786796560, 23142833437126869098096711486668800⟩,
    ⟨0, 152127687937228800, 536870912, 786796560, 306948637837526925536641290464133120, 0, 0, true, 574535874662891520, 1073741824, 1518500400, 330091471274653794634738001950801920⟩,
    ⟨0, 574535874662891520, 1073741824, 1518500400, 4531992022716246486040635510462873600, 0, 0, true, 2205013263903621120, 2147483648, 1518500400, 4862083493990900280675373512413675520⟩]

/-- call 33 of worker 0: the answer is `false`, and `low_ += segment_size_ * segments_` leaves int64 -/
def wLast : Ev :=
  ⟨0, 2205013263903621120, 2147483648, 1518500400, 454828489148763213245697737921396736, 0, 0, false, 5465968042385080320, 4294967296, 1518500400, 5316911983139663493921071250335072256⟩

/-- the state of the balancer before call 33 -/
def wState33 : State := run wCfg wInit wPre

theorem wLimit_eq : wLimit = 2 ^ 61 := by decide
theorem wX_eq : wX = 10 ^ 31 := by decide

theorem wPre_behaves : behaves wCfg wInit wPre = true := by decide +kernel
theorem wPre_zeroDur : allZeroDur wCfg wInit wPre = true := by decide +kernel
theorem wPre_noOvf : allNoOvf wCfg wInit wPre = true := by decide +kernel
theorem wState33_low : wState33.low = 5465968042385080320 ∧ wState33.segs = 2147483648 ∧ wState33.size = 1518500400 := by
  decide +kernel
theorem wLast_behStep : behStep wCfg wState33 wLast = true := by decide +kernel
theorem wLast_zeroDur : zeroDurOk wCfg wState33 wLast = true := by decide +kernel
theorem wLast_peak : peak wCfg wState33 wLast = 11987877599347998720 := by decide +kernel
theorem wLast_ovf : noOvf wCfg wState33 wLast = false := by decide +kernel

/-- workers are numbered below `threads` -/
def workersBelow (n : Nat) : List Ev → Bool
  | [] => true
  | e :: es => decide (e.w < n) && workersBelow n es

/-- **C16 witness.**  The history `wPre ++ [wLast]` (34 calls of `get_work`, recorded on the real `LoadBalancerS2`
    under a constant clock) has `sieve_limit = 2^61 ≤ 2^62 + 2^33` (the bound the public API guarantees), is a
    behaviour of the integer model from `S2.init` (ThreadData handed back unchanged, outputs as the model computes
    them, no call after `false`, workers `< threads`), takes the zero-duration choice `segments_ *= 2` everywhere,
    is overflow-free for its first 33 calls, and its last call computes the int64 value
    `low_ + segment_size_ * segments_ = 11987877599347998720 ≥ 2^63`: `noOvf` is false. -/
theorem s2_history_overflow_witness :
    wCfg.limit ≤ 2 ^ 62 + 2 ^ 33 ∧ wX ≤ 10 ^ 31 ∧
    workersBelow wCfg.threads (wPre ++ [wLast]) = true ∧
    behaves wCfg wInit (wPre ++ [wLast]) = true ∧
    allZeroDur wCfg wInit (wPre ++ [wLast]) = true ∧
    allNoOvf wCfg wInit wPre = true ∧
    noOvf wCfg (run wCfg wInit wPre) wLast = false ∧
    peak wCfg (run wCfg wInit wPre) wLast = 5465968042385080320 + 1518500400 * 4294967296 ∧
    two63 ≤ peak wCfg (run wCfg wInit wPre) wLast := by
  refine ⟨by decide +kernel, by decide +kernel, by decide +kernel, by decide +kernel, by decide +kernel,
    wPre_noOvf, wLast_ovf, by decide +kernel, by decide +kernel⟩

/-- the whole-history safety claim for the range the public API guarantees is FALSE of the integer model
    (and of the real object: UBSan reports the same addition at LoadBalancerS2.cpp:130) -/
theorem s2_whole_history_safety_refuted :
    ¬ ∀ (x limit threads : Nat) (print : Bool) (es : List Ev),
        x ≤ 10 ^ 31 → limit ≤ 2 ^ 62 + 2 ^ 33 → 1 ≤ threads → workersBelow threads es = true →
        behaves (mkConfig genConsts limit threads print) (init genConsts x limit threads print) es = true →
        allNoOvf (mkConfig genConsts limit threads print) (init genConsts x limit threads print) es = true := by
  intro h
  have := h wX wLimit 2 false (wPre ++ [wLast]) (by decide +kernel) (by decide +kernel) (by decide)
    (by decide +kernel) (by decide +kernel)
  revert this
  decide +kernel

end Pc.LB.S2

#print axioms Pc.LB.S2.s2_history_overflow_witness
#print axioms Pc.LB.S2.s2_whole_history_safety_refuted
