/-
C13 — the DOCUMENTED expression grammar of include/calculator.hpp, as a declarative specification.

Source of the specification: the header comment of calculator.hpp ("== Supported operators ==": operator,
associativity, precedence; "Unary operators are set to have the highest precedence"; the examples), NOT the
shift/reduce loop. Nothing in this file mentions a stack.

  expr(p)  ::=  prim  { binop(q ≥ p)  expr(q + 1 if binop is left-associative, q if right-associative) }
  prim     ::=  number | '(' expr(0) ')' | '+' prim | '-' prim | '~' prim
  number   ::=  decimal digits | ("0x" | "0X") hex digits
  white space (`isspace` of the "C" locale) may precede every token and may follow the expression

"{ ... }" is greedy: the repetition stops only when no binary operator follows or the operator that follows has a
precedence below `p` (`Doc.stopEnd`, `Doc.stopLow`). `<` and `>` are not tokens on their own: a `<` that is not
followed by `<` is a lexical error (`Tok.bad`), no rule applies to it.

`Doc` is the inductive relation, `Parses s e` = "the whole string `s` is an expression with syntax tree `e`".
The relation is deterministic (`PcProofs/CalcGrammarRef.lean`: it is the graph of the reference parser `refTree`).
-/
import PcGen.CalcOpsData

namespace Pc.Calc

/-- the operator table of the header comment (calculator.hpp lines 14–27), transcribed by hand:
    (characters, operator, precedence, left-associative). `^` is "raise to power" (patched version 1.4). -/
def docTable : List (Bytes × Op × Nat × Bool) := [
  ([124],      .bor,  4,  true),    -- |    Bitwise Inclusive OR   Left    4
  ([38],       .band, 6,  true),    -- &    Bitwise AND            Left    6
  ([60, 60],   .shl,  9,  true),    -- <<   Shift Left             Left    9
  ([62, 62],   .shr,  9,  true),    -- >>   Shift Right            Left    9
  ([43],       .add,  10, true),    -- +    Addition               Left   10
  ([45],       .sub,  10, true),    -- -    Subtraction            Left   10
  ([42],       .mul,  20, true),    -- *    Multiplication         Left   20
  ([47],       .div,  20, true),    -- /    Division               Left   20
  ([37],       .mod,  20, true),    -- %    Modulo                 Left   20
  ([94],       .pow,  30, false),   -- ^    Raise to power         Right  30
  ([42, 42],   .pow,  30, false),   -- **   Raise to power         Right  30
  ([101],      .exp,  40, false),   -- e    Scientific notation    Right  40
  ([69],       .exp,  40, false)]   -- E    Scientific notation    Right  40

/-- what stands at the head of the (space-stripped) input where a binary operator may stand -/
inductive Tok where
  /-- a binary operator of the table (operator, precedence, left-associative) and the input after it -/
  | op (o : Op) (prec : Nat) (left : Bool) (rest : Bytes)
  /-- the first character starts an operator of the table, but no operator of the table stands here (`<`, `>` alone) -/
  | bad
  /-- no operator here (end of input, `)`, anything else) -/
  | none
deriving Repr, DecidableEq

/-- the table entry whose characters are exactly `w` -/
def docLookup (w : Bytes) : Option (Bytes × Op × Nat × Bool) := docTable.find? (fun e => e.1 == w)

/-- longest match: a two-character operator wins over a one-character operator -/
def lexOp (t : Bytes) : Tok :=
  match docLookup (t.take 2) with
  | some (_, o, p, l) => .op o p l (t.drop 2)
  | none =>
    match docLookup (t.take 1) with
    | some (_, o, p, l) => .op o p l (t.drop 1)
    | none => if docTable.any (fun e => e.1.head? == t.head? && !t.isEmpty) then .bad else .none

/-- value of the longest run of digits below `base` at the front of the input, and the input after it -/
def lexDigits (base : Nat) : Nat → Bytes → Nat × Bytes
  | acc, [] => (acc, [])
  | acc, c :: cs => if digitVal c < base then lexDigits base (acc * base + digitVal c) cs else (acc, c :: cs)

/-- a number literal: `0x` / `0X` followed by at least one hexadecimal digit is hexadecimal, every other literal
    starts with a decimal digit and is decimal -/
def lexNum (t : Bytes) : Option (Nat × Bytes) :=
  match t with
  | [] => none
  | c :: r =>
    if c = 48 ∧ isHex r = true then some (lexDigits 16 0 (r.drop 1))
    else if isDigit c = true then some (lexDigits 10 0 (c :: r))
    else none

/-- syntactic category: a primary, or the operator tail `{ binop expr }` of an `expr(p)` whose left operand so far
    is the tree `lhs` -/
inductive Cat where
  | prim
  | rest (p : Nat) (lhs : Expr)

/-- binding power required of the operators inside the right operand of an operator with precedence `q` -/
def rbp (q : Nat) (left : Bool) : Nat := if left then q + 1 else q

/-- `Doc c s e r`: a phrase of category `c` stands at the front of `s`, its syntax tree is `e`, `r` is the input after it -/
inductive Doc : Cat → Bytes → Expr → Bytes → Prop where
  | num {s : Bytes} {n : Nat} {r : Bytes} :
      lexNum (eatSpaces s) = some (n, r) → Doc .prim s (.lit n) r
  | paren {s s1 r1 r2 r : Bytes} {a e : Expr} :
      eatSpaces s = 40 :: s1 → Doc .prim s1 a r1 → Doc (.rest 0 a) r1 e r2 → eatSpaces r2 = 41 :: r → Doc .prim s e r
  | pos {s s1 r : Bytes} {e : Expr} :
      eatSpaces s = 43 :: s1 → Doc .prim s1 e r → Doc .prim s e r
  | neg {s s1 r : Bytes} {e : Expr} :
      eatSpaces s = 45 :: s1 → Doc .prim s1 e r → Doc .prim s (.neg e) r
  | not {s s1 r : Bytes} {e : Expr} :
      eatSpaces s = 126 :: s1 → Doc .prim s1 e r → Doc .prim s (.not e) r
  | stopEnd {p : Nat} {lhs : Expr} {s : Bytes} :
      lexOp (eatSpaces s) = .none → Doc (.rest p lhs) s lhs s
  | stopLow {p : Nat} {lhs : Expr} {s s1 : Bytes} {o : Op} {q : Nat} {l : Bool} :
      lexOp (eatSpaces s) = .op o q l s1 → q < p → Doc (.rest p lhs) s lhs s
  | step {p : Nat} {lhs a rhs e : Expr} {s s1 r1 r2 r : Bytes} {o : Op} {q : Nat} {l : Bool} :
      lexOp (eatSpaces s) = .op o q l s1 → p ≤ q →
      Doc .prim s1 a r1 → Doc (.rest (rbp q l) a) r1 rhs r2 →
      Doc (.rest p (.bin o lhs rhs)) r2 e r → Doc (.rest p lhs) s e r

/-- the whole string is an expression of the documented grammar with syntax tree `e` -/
def Parses (s : Bytes) (e : Expr) : Prop :=
  ∃ a r1 r, Doc .prim s a r1 ∧ Doc (.rest 0 a) r1 e r ∧ eatSpaces r = []

end Pc.Calc
