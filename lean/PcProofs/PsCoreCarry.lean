/-
C18 core: the packed `SievingPrime` state survives `set` / `get…` (23 + 9 bits), the per-prime cross-off of EratMedium on a
whole segment re-establishes the wheel state for the NEXT segment (carry-over over any number of segments), and one visit of
EratBig (`wheel210`, scheduling by segment index) does the same for its bucket list.
-/
import PcProofs.PsCoreAdd

namespace Pc.PsCore
open Pc.PsWheelSpec
open Pc.Sieve (Bytes clearBit bitAt bitAt_clear)

theorem packShift_eq : packShift = 23 := by
  unfold packShift; rw [Gen.psPackBits_ok]
theorem packWidth_eq : packWidth = 32 := by
  unfold packWidth; rw [Gen.psPackBits_ok]

/-- `set(sievingPrime, multipleIndex, wheelIndex)` followed by the three getters, within the 23 / 9 / 32 bit ranges -/
theorem sprime_roundtrip (sp mi wi : ℕ) (hsp : sp < 2 ^ 32) (hmi : mi < 2 ^ 23) (hwi : wi < 2 ^ 9) :
    (SPrime.set sp mi wi).sp = sp ∧ (SPrime.set sp mi wi).mi = mi ∧ (SPrime.set sp mi wi).wi = wi := by
  unfold SPrime.set SPrime.mi SPrime.wi
  simp only [packShift_eq, packWidth_eq]
  have hor : mi ||| wi <<< 23 = wi <<< 23 + mi := by
    rw [Nat.or_comm]; exact (Nat.shiftLeft_add_eq_or_of_lt hmi wi).symm
  have hsh : wi <<< 23 = wi * 2 ^ 23 := Nat.shiftLeft_eq wi 23
  have hlt : wi <<< 23 + mi < 2 ^ 32 := by rw [hsh]; omega
  refine ⟨Nat.mod_eq_of_lt hsp, ?_, ?_⟩
  · rw [hor, Nat.mod_eq_of_lt hlt, Nat.and_two_pow_sub_one_eq_mod, hsh]; omega
  · rw [hor, Nat.mod_eq_of_lt hlt, Nat.shiftRight_eq_div_pow, hsh]; omega

/-- **EratMedium, one sieving prime on one whole segment of `n` bytes** (`crossPrime` with EratMedium's table): from a
    correct packed state (`q < 2^25`, covers every prime `≤ maxEratMedium_ ≤ 3·2^23`) it clears exactly the bits of the
    multiples `q·t` (`u ≤ t < u'`, `t` coprime to 30), and the packed state it stores is correct for the NEXT segment. -/
theorem medium_prime_segment (q L n : ℕ) (hL : 30 ∣ L) (hq : 30 ≤ q) (hq25 : q < 2 ^ 25) (hn : n ≤ 2 ^ 23)
    (p : SPrime) (u : ℕ) (hp : Pos 30 8 (q / 30) q L p.mi p.wi u) (hsp : p.sp = q / 30) (s : Bytes) :
    ∃ u', u ≤ u' ∧
      Pos 30 8 (q / 30) q (L + 30 * n) (crossPrime Gen.psMediumTab false 0 n p s).1.mi
        (crossPrime Gen.psMediumTab false 0 n p s).1.wi u' ∧
      (crossPrime Gen.psMediumTab false 0 n p s).1.sp = q / 30 ∧
      (∀ b, bitAt (crossPrime Gen.psMediumTab false 0 n p s).2 b = true ↔ (bitAt s b = true ∧ ¬ Hit 30 q L u u' b)) ∧
      (crossPrime Gen.psMediumTab false 0 n p s).2.size = s.size := by
  have hP : 1 ≤ q / 30 := by omega
  have hmi : p.mi < 2 ^ 23 := by
    unfold SPrime.mi; rw [packShift_eq, Nat.and_two_pow_sub_one_eq_mod]; exact Nat.mod_lt _ (by norm_num)
  obtain ⟨u', hu', hpos, hbits, hsz, hbound⟩ := crossLoop_spec Gen.psMediumTab 30 8 6 tabOk_medium (q / 30) q L 0 n hP hL
    (crossFuel n p.mi) p.mi p.wi s u (by simpa using hp) (by unfold crossFuel; omega)
  unfold crossPrime
  simp only [hsp]
  set r := crossLoop Gen.psMediumTab false (q / 30) 0 n (crossFuel n p.mi) p.mi p.wi s with hr
  -- bounds for the packing
  have hidx : r.2.1 < 2 ^ 9 := by
    obtain ⟨g, j, U, hg, hj, _, _, hi, _⟩ := hpos
    rw [hi]; omega
  have hm : r.1 < 2 ^ 23 := by
    rcases hbound with h | ⟨_, h⟩
    · omega
    · omega
  have hsp32 : q / 30 < 2 ^ 32 := by omega
  obtain ⟨e1, e2, e3⟩ := sprime_roundtrip (q / 30) r.1 r.2.1 hsp32 hm hidx
  refine ⟨u', hu', ?_, e1, hbits, hsz⟩
  rw [e2, e3]
  simpa using hpos

/-- **EratBig, one visit** (`bigStep`): from a correct state inside the current segment (`mi < 2^log2`) it clears exactly the
    bit of the pending multiple `q·u`, and the state it stores in bucket list `segment` is correct relative to the segment
    `segment` positions ahead (`wheel210`; scheduling by segment index). -/
theorem big_step (q L log2 : ℕ) (hL : 30 ∣ L) (hlog : log2 ≤ 23) (hq32 : q < 2 ^ 32)
    (p : SPrime) (u : ℕ) (hp : Pos 210 48 (q / 30) q L p.mi p.wi u) (hsp : p.sp = q / 30) (s : Bytes) :
    let r := bigStep log2 p s
    Pos 210 48 (q / 30) q (L + 30 * (2 ^ log2 * r.1)) r.2.1.mi r.2.1.wi
      (u + (Gen.psWheel210.getD p.wi (0, 0, 0, 0)).2.1) ∧ r.2.1.sp = q / 30 ∧
    (∀ b, bitAt r.2.2 b = true ↔ (bitAt s b = true ∧ q * u ≠ numOf L b)) ∧
    (∀ t, u < t → t < u + (Gen.psWheel210.getD p.wi (0, 0, 0, 0)).2.1 → ¬ Nat.Coprime t 210) := by
  intro r
  obtain ⟨hbit, hnum, hpos2, hk, hgap, _, _⟩ := pos_step tabOk_210 hp (by simpa using hL) L 0 (by simp)
  set e := Gen.psWheel210.getD p.wi (0, 0, 0, 0) with he
  have hr : r = ((p.mi + e.2.1 * p.sp + e.2.2.1) >>> log2,
      SPrime.set p.sp ((p.mi + e.2.1 * p.sp + e.2.2.1) &&& (2 ^ log2 - 1)) e.2.2.2,
      s.modify p.mi (clearBit · e.1)) := rfl
  have hmi' : (p.mi + e.2.1 * p.sp + e.2.2.1) &&& (2 ^ log2 - 1) = (p.mi + e.2.1 * p.sp + e.2.2.1) % 2 ^ log2 :=
    Nat.and_two_pow_sub_one_eq_mod _ _
  have hlt : (p.mi + e.2.1 * p.sp + e.2.2.1) % 2 ^ log2 < 2 ^ 23 :=
    lt_of_lt_of_le (Nat.mod_lt _ (Nat.two_pow_pos log2)) (Nat.pow_le_pow_right (by norm_num) hlog)
  have hidx : e.2.2.2 < 2 ^ 9 := by
    obtain ⟨g, j, U, hg, hj, _, _, hi, _⟩ := hpos2
    rw [hi]; omega
  obtain ⟨e1, e2, e3⟩ := sprime_roundtrip p.sp ((p.mi + e.2.1 * p.sp + e.2.2.1) % 2 ^ log2) e.2.2.2
    (by rw [hsp]; omega) hlt hidx
  rw [hr]
  simp only [hmi', e1, e2, e3]
  refine ⟨?_, hsp, ?_, hgap⟩
  · have hs := pos_shift (n := 2 ^ log2 * ((p.mi + e.2.1 * p.sp + e.2.2.1) >>> log2)) hpos2 hL
      (by rw [Nat.shiftRight_eq_div_pow, hsp, Nat.mul_comm e.2.1]; exact Nat.mul_div_le _ _)
    have hm : p.mi + q / 30 * e.2.1 + e.2.2.1 - 2 ^ log2 * ((p.mi + e.2.1 * p.sp + e.2.2.1) >>> log2) =
        (p.mi + e.2.1 * p.sp + e.2.2.1) % 2 ^ log2 := by
      rw [Nat.shiftRight_eq_div_pow, hsp, Nat.mul_comm e.2.1]
      have := Nat.div_add_mod (p.mi + q / 30 * e.2.1 + e.2.2.1) (2 ^ log2)
      omega
    rw [hm] at hs
    simpa using hs
  · intro b
    rw [bitAt_clear s p.mi e.1 b hbit]
    simp only [Bool.and_eq_true, decide_eq_true_eq]
    constructor
    · rintro ⟨h1, h2⟩
      refine ⟨h1, ?_⟩
      intro h; rw [hnum] at h
      apply h2; have := numOf_inj _ _ _ h; simpa using this.symm
    · rintro ⟨h1, h2⟩
      refine ⟨h1, ?_⟩
      intro h; apply h2; rw [hnum, h]; simp

end Pc.PsCore
