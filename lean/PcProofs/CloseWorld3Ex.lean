/-
WP close: non-vacuity of the world theorems with the bit-exact `class Sieve` (PcProofs/CloseWorld3.lean): over `exWorld` with the AVX512 configuration of
the sieve, `NestedS` at `x = 10^5`, complete executions of `pi_gourdon_64(100000)` and `pi_deleglise_rivat_64(100000)`.
-/
import PcProofs.CloseWorld3
import PcProofs.CloseWorldEx

namespace Pc.Close
open Nat Pc.Hard Pc.PhiVec Pc.Top Pc.PsCore Pc.LB PcGen.ApiConst Pc.PhiAlgProofs Pc.ClosePhi
open scoped Nat.Prime

theorem exGExecC_worldS (c : Sieve.Cfg) (f : Sieve.StopFn) :
    GExecC (exWorld.tablesS c f false) 100 false 100000 (exGRun (exWorld.tablesS c f false).t) :=
  exGExecC_of _ rfl (by show 2127 ≤ 3000; norm_num) (by show 3000 ≤ _; decide)

theorem exDrExec_worldS (c : Sieve.Cfg) (f : Sieve.StopFn) : DrExec (exWorld.tablesS c f false) 100 false 100000 exDrRun :=
  exDrExec_of _ rfl (by show 46 ≤ 3000; norm_num)

/-- the nested-call hypothesis over the world with the bit-exact sieve, `x = 10^5`, `pi := π` -/
theorem exWorld_nestedS (c : Sieve.Cfg) (f : Sieve.StopFn) : exWorld.NestedS c f 100 Nat.primeCounting 100000 := by
  intro n hn h63
  have c1 : (maxCached : ℤ) = 30719 := rfl
  have c2 : (legendreMax : ℤ) = 100000 := rfl
  have l1 : legendreMax = 100000 := rfl
  have l2 : meisselMax = 100000000 := rfl
  have hn' : n < 100000 := by exact_mod_cast hn
  have hex : maxCached < n → ApiExecC (exWorld.tablesS c f false) 100 false n exApiRun :=
    fun _ => ⟨fun h _ => absurd h (by omega), fun h => absurd h (by omega)⟩
  refine ⟨1, exApiRun, hex, ?_⟩
  have hstep := piApi64_step_world (exWorld.tablesS c f false) (exWorld.tablesS_ok exWorld_ok (by norm_num) c f false)
    (exWorld.it_specTo exWorld_ok) World.maxPrime64_ge exWorld.P exWorld.order exWorld.sched Nat.primeCounting (n : ℤ)
    (by exact_mod_cast h63) 1 false exApiRun
    (by rw [Int.toNat_natCast]; exact exWorld.phiExec exWorld_ok n (fun _ _ => exWorld_phiRunOK n)) (fun _ _ => rfl)
    (fun h => by rw [Int.toNat_natCast]; exact hex (by exact_mod_cast h))
  rw [Int.toNat_natCast] at hstep
  rcases hstep with h | h
  · exact h
  · exfalso
    unfold piApi64 at h
    split_ifs at h with h1 h2 h3
    all_goals omega

end Pc.Close
