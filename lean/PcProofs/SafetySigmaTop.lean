/-
C16 / C12 (WP safety2): `Sigma(x, y)` width-checked, whole function: `sigmaC = liftL sigma` (no stored value leaves `T`).
* `sigma_closed_hyps`   the parameter ordering of Gourdon's algorithm gives the hypotheses of `sigma0C_ok … sigma3C_ok` with `tMax = x`;
* `sigma*_range`        hence every closed form lies in `[-x - 1, x]`;
* `sigmaC_eq`           the whole function, for `11 x + 4 ≤ tMax`.
-/
import PcProofs.SafetySigma456

namespace Pc.Safety
open Pc Pc.P2L Pc.LB Finset
open scoped Nat.Prime
variable {t : NT}

/-- what `sigma0C_ok … sigma3C_ok` need, with `tMax = x` -/
structure SigmaClosedOK (x a b c d ps : ℕ) : Prop where
  hdc : d ≤ c
  hcb : c ≤ b
  hba : b ≤ a
  hap : a ≤ ps
  hps : ps * ps ≤ x
  haa : a * a ≤ x
  hab : a * (b + 1) ≤ x
  hac : a * (c * c) ≤ x
  hcc : c * c ≤ x
  hbx : b ≤ x
  hb3 : b * b * (2 * b) ≤ x

/-- `π(n) + 1 ≤ max n 1` -/
theorem pi_succ_le (n : ℕ) : π n + 1 ≤ max n 1 := by
  have h := pi_le_half n
  rcases n with _ | _ | _ | n
  · decide
  · decide
  · decide
  · have : max (n + 1 + 1 + 1) 1 = n + 3 := by omega
    rw [this]; omega

/-- `2 π(n)³ ≤ n³` -/
theorem two_pi_cube_le (n : ℕ) : π n * π n * (2 * π n) ≤ n ^ 3 := by
  have h := pi_le_half n
  rcases Nat.lt_or_ge n 2 with h2 | h2
  · have : π n = 0 := by
      have := Spec.pi_mono (show n ≤ 1 by omega)
      have h1 : π 1 = 0 := by decide
      omega
    rw [this]; simp
  · set b := π n with hb
    have hu : 2 * b ≤ n + 1 := by omega
    have h3 : 2 * (n + 1) ≤ 3 * n := by omega
    have e1 : (2 * b) ^ 3 ≤ (n + 1) ^ 3 := Nat.pow_le_pow_left hu 3
    have e2 : (2 * (n + 1)) ^ 3 ≤ (3 * n) ^ 3 := Nat.pow_le_pow_left h3 3
    have e3 : (2 * b) ^ 3 = 4 * (b * b * (2 * b)) := by ring
    have e4 : (2 * (n + 1)) ^ 3 = 8 * (n + 1) ^ 3 := by ring
    have e5 : (3 * n) ^ 3 = 27 * n ^ 3 := by ring
    rw [e3] at e1
    rw [e4, e5] at e2
    generalize b * b * (2 * b) = B at *
    generalize (n + 1) ^ 3 = V at *
    generalize n ^ 3 = W at *
    omega

/-- **the parameter ordering of `Sigma()`** (`x^(1/3) ≤ y ≤ √x`, `√(x/y) ≤ x^(1/3)`): `a = π(y)`, `b = π(x^(1/3))`, `c = π(√(x/y))`,
    `d = π(x⋆)`, `ps = π(√x)` satisfy the hypotheses of the four closed-form lemmas with `tMax = x` -/
theorem sigma_closed_hyps {x y : ℕ} (hy1 : 1 ≤ y) (hy2 : y * y ≤ x) (hc3y : irootN 3 x ≤ y)
    (hsc : Nat.sqrt (x / y) ≤ irootN 3 x) :
    SigmaClosedOK x (π y) (π (irootN 3 x)) (π (Nat.sqrt (x / y))) (π (xStar x y)) (π (Nat.sqrt x)) := by
  have hc3 := (irootN_spec 3 x (by omega)).1
  have hys : y ≤ Nat.sqrt x := Nat.le_sqrt.2 hy2
  have hss : Nat.sqrt x * Nat.sqrt x ≤ x := Nat.sqrt_le x
  have ha := pi_le_self y
  have hb := pi_le_self (irootN 3 x)
  have hc := pi_le_self (Nat.sqrt (x / y))
  have hps := pi_le_self (Nat.sqrt x)
  have hsy : Nat.sqrt (x / y) * Nat.sqrt (x / y) * y ≤ x :=
    (Nat.le_div_iff_mul_le hy1).1 (Nat.sqrt_le (x / y))
  have hb1 : π (irootN 3 x) + 1 ≤ y := le_trans (pi_succ_le _) (max_le hc3y hy1)
  have hyx : y ≤ x := le_trans (Nat.le_mul_self y) hy2
  refine ⟨pi_xStar_le hy1, Spec.pi_mono hsc, Spec.pi_mono hc3y, Spec.pi_mono hys, ?_, ?_, ?_, ?_, ?_, ?_, ?_⟩
  · exact le_trans (Nat.mul_le_mul hps hps) hss
  · exact le_trans (Nat.mul_le_mul ha ha) hy2
  · exact le_trans (Nat.mul_le_mul ha hb1) hy2
  · calc π y * (π (Nat.sqrt (x / y)) * π (Nat.sqrt (x / y)))
        ≤ y * (Nat.sqrt (x / y) * Nat.sqrt (x / y)) := Nat.mul_le_mul ha (Nat.mul_le_mul hc hc)
      _ = Nat.sqrt (x / y) * Nat.sqrt (x / y) * y := by ring
      _ ≤ x := hsy
  · exact le_trans (Nat.mul_le_mul hc hc) (le_trans (Nat.sqrt_le (x / y)) (Nat.div_le_self _ _))
  · exact le_trans hb (le_trans hc3y hyx)
  · exact le_trans (two_pi_cube_le _) hc3

/-! ### ranges of the four closed forms -/

theorem inS_mono {M M' : ℕ} (h : M ≤ M') {v : ℤ} (hv : inS M v = true) : inS M' v = true := by
  rw [inS_iff] at hv ⊢
  have : (M : ℤ) ≤ M' := by exact_mod_cast h
  constructor <;> omega

theorem sigma0_range {x a b c d ps : ℕ} (H : SigmaClosedOK x a b c d ps) : inS x (sigma0P ps a) = true := by
  have h := sigma0C_ok x ps a H.hap H.hps
  unfold sigma0C at h
  split at h
  · rename_i hall
    exact List.all_eq_true.1 hall _ (by simp [sigma0Vals, sigma0P])
  · cases h

theorem sigma1_range {x a b c d ps : ℕ} (H : SigmaClosedOK x a b c d ps) : inS x (sigma1 a b) = true := by
  have h := sigma1C_ok x a b H.hba H.haa
  unfold sigma1C at h
  split at h
  · rename_i hall
    exact List.all_eq_true.1 hall _ (by simp [sigma1Vals, sigma1])
  · cases h

theorem sigma2_range {x a b c d ps : ℕ} (H : SigmaClosedOK x a b c d ps) (hx : 2 ≤ x) :
    inS x (sigma2 a b c d) = true := by
  have h := sigma2C_ok x a b c d hx H.hdc H.hcb H.hab H.hac H.hcc H.hbx
  unfold sigma2C at h
  split at h
  · rename_i hall
    exact List.all_eq_true.1 hall _ (by simp [sigma2Vals, sigma2])
  · cases h

theorem sigma3_range {x a b c d ps : ℕ} (H : SigmaClosedOK x a b c d ps) (hx : 1 ≤ x) :
    inS x (sigma3 b d) = true := by
  have h := sigma3C_ok x b d hx (le_trans H.hdc H.hcb) H.hb3
  unfold sigma3C at h
  split at h
  · rename_i hall
    exact List.all_eq_true.1 hall _ (by simp [sigma3Vals, sigma3])
  · cases h

/-! ### the whole function -/

/-- the unchecked mirror's five parts (the first half of the proof of `sigma_eq_NT`, PcProofs/LeafSigma.lean, restated) -/
theorem sigmaParts_ok {x y : ℕ} (D : SigmaDom t x y) {w : ITy} (hw : y * y ≤ w.maxVal)
    (h4 : x / (xStar x y * y) ≤ ITy.i64.maxVal) (h6 : Nat.sqrt (x / xStar x y) ≤ ITy.i64.maxVal) :
    sigmaParts t w x y = .ok (sigma0 t x (t.piOf y), sigma1 (t.piOf y) (t.piOf (irootN 3 x)),
      sigma2 (t.piOf y) (t.piOf (irootN 3 x)) (t.piOf (isqrtN (x / y))) (t.piOf (xStar x y)),
      sigma3 (t.piOf (irootN 3 x)) (t.piOf (xStar x y)),
      (0 + ((t.primesIn (xStar x y) (irootN 3 x)).map (sg4 t x y (Nat.sqrt (x / y)))).sum) * (t.piOf y : ℤ)
        + (0 + ((t.primesIn (xStar x y) (irootN 3 x)).map (sg5 t x (Nat.sqrt (x / y)))).sum)
        + -(0 + ((t.primesIn (xStar x y) (irootN 3 x)).map (sg6 t x)).sum)) := by
  obtain ⟨hv, hy1, hc3y, hyb, hs, hm4⟩ := D
  have hxs1 := one_le_xStar x y
  have hxsy : xStar x y ≤ y := xStar_le_y hy1
  have hc3b : irootN 3 x ≤ t.bound := le_trans hc3y hyb
  set xs := xStar x y with hxs
  set maxPix := max (x / (xs * y)) (max y (isqrtN (x / xs))) with hmp
  have hm5 : y ≤ maxPix := le_max_of_le_right (le_max_left _ _)
  have hm6 : Nat.sqrt (x / xs) ≤ maxPix := by
    rw [← isqrtN_eq]; exact le_max_of_le_right (le_max_right _ _)
  have hsxy : isqrtN (x / y) ≤ maxPix := by
    rw [isqrtN_eq]
    exact le_trans (Nat.sqrt_le_sqrt (Nat.div_le_div_left hxsy hxs1)) hm6
  have H : SigmaLoopOK w x y xs (irootN 3 x) maxPix :=
    ⟨hy1, hxs1, hc3y, hw, le_max_left _ _, hm5, hm6⟩
  have hmem : ∀ q ∈ t.primesIn xs (irootN 3 x), xs < q ∧ q ≤ irootN 3 x := by
    intro q hq
    exact ((NT.mem_primesIn hv hc3b q).1 hq).2
  have hdy : divM x y = .ok (x / y) := divM_ok (by omega)
  unfold sigmaParts sigma456
  dsimp only
  rw [← hxs, mulT_ok (le_trans (Nat.mul_le_mul_right y hxsy) hw), LM_bind_ok,
    divM_ok (Nat.mul_pos hxs1 hy1).ne', LM_bind_ok, narrowTo_ok h4, LM_bind_ok, divM_ok (by omega), LM_bind_ok,
    narrowTo_ok (by rw [isqrtN_eq]; exact h6), LM_bind_ok]
  simp only [← hmp]
  rw [piGet_ok' t hm5, LM_bind_ok, piGet_ok' t (le_trans hc3y hm5), LM_bind_ok, hdy]
  have hsxy' : Nat.sqrt (x / y) ≤ maxPix := by rw [← isqrtN_eq]; exact hsxy
  simp only [LM_bind_ok, piGet_ok' t hsxy', piGet_ok' t (le_trans hxsy hm5), isqrtN_eq (x / y),
    sigma456_fold H _ _ hmem, LM_pure]

/-- the linear arithmetic of the nine final values of `Sigma456` / `Sigma` -/
theorem sigma_sums_arith {x M s0 s1 s2 s3 P S5 S6 : ℤ} (hM : 11 * x + 4 ≤ M)
    (r0 : -x - 1 ≤ s0 ∧ s0 ≤ x) (r1 : -x - 1 ≤ s1 ∧ s1 ≤ x) (r2 : -(x + 1) - 1 ≤ s2 ∧ s2 ≤ x + 1)
    (r3 : -x - 1 ≤ s3 ∧ s3 ≤ x) (hP : 0 ≤ P ∧ P ≤ 6 * x) (h5 : 0 ≤ S5 ∧ S5 ≤ x) (h6 : 0 ≤ S6 ∧ S6 ≤ 6 * x) :
    (-M - 1 ≤ s0 + s1 ∧ s0 + s1 ≤ M) ∧ (-M - 1 ≤ s0 + s1 + s2 ∧ s0 + s1 + s2 ≤ M) ∧
    (-M - 1 ≤ s0 + s1 + s2 + s3 ∧ s0 + s1 + s2 + s3 ≤ M) ∧ (-M - 1 ≤ P ∧ P ≤ M) ∧ (-M - 1 ≤ -S6 ∧ -S6 ≤ M) ∧
    (-M - 1 ≤ P + S5 ∧ P + S5 ≤ M) ∧ (-M - 1 ≤ P + S5 + -S6 ∧ P + S5 + -S6 ≤ M) ∧
    (-M - 1 ≤ s0 + s1 + s2 + s3 + (P + S5 + -S6) ∧ s0 + s1 + s2 + s3 + (P + S5 + -S6) ≤ M) := by
  refine ⟨⟨?_, ?_⟩, ⟨?_, ?_⟩, ⟨?_, ?_⟩, ⟨?_, ?_⟩, ⟨?_, ?_⟩, ⟨?_, ?_⟩, ⟨?_, ?_⟩, ?_, ?_⟩ <;> omega

/-- **`Sigma(x, y)` stores no value outside `T`** (PARTIAL in the constant: `11 x + 4 ≤ tMax`): on the domain of `sigma_eq`
    (`x^(1/3) ≤ y ≤ √x`, `√(x/y) ≤ x^(1/3)`, tables as the real code allocates them) every intermediate of `Sigma0 … Sigma3`, every
    prefix of `sigma4`, `sigma5`, `sigma6`, every product `pi_sqrt_xp * (T) pi_sqrt_xp`, `sigma4 *= a`, `-sigma6`, and the six final
    additions lie in `T`, and the value is that of the unchecked mirror.
    Missing for full strength on `int64_t`: the bounds used are `|Σ0|, |Σ1|, |Σ2|, |Σ3| ≤ x + 1`, `Σ4, Σ6 ≤ 6x` (ordered prime
    triples), `Σ5 ≤ x`; a Mertens-type bound (`Σ4, Σ6 = O(x / log x)`) would be needed for `x ∈ ((2^63 - 5) / 11, 2^63)`. -/
theorem sigmaC_eq_partial {x y : ℕ} (D : SigmaDom t x y) {w : ITy} (hy2 : y * y ≤ x)
    (hsc : Nat.sqrt (x / y) ≤ irootN 3 x) (hw : y * y ≤ w.maxVal) (h63 : t.bound ≤ ITy.i64.maxVal)
    {M : ℕ} (hM : 11 * x + 4 ≤ M) :
    sigmaC M t w x y = liftL (sigma t w x y) := by
  have D' := D
  obtain ⟨hv, hy1, hc3y, hyb, hs, hm4⟩ := D
  have h4 : x / (xStar x y * y) ≤ ITy.i64.maxVal := le_trans hm4 h63
  have h6 : Nat.sqrt (x / xStar x y) ≤ ITy.i64.maxVal :=
    le_trans (le_trans (Nat.sqrt_le_sqrt (Nat.div_le_self _ _)) hs) h63
  have hparts := sigmaParts_ok D' hw h4 h6
  have hxs1 := one_le_xStar x y
  have hxsy : xStar x y ≤ y := xStar_le_y hy1
  have hc3b : irootN 3 x ≤ t.bound := le_trans hc3y hyb
  have hx2 : 1 ≤ x := le_trans hy1 (le_trans (Nat.le_mul_self y) hy2)
  -- the closed forms
  have HC := sigma_closed_hyps hy1 hy2 hc3y hsc
  rw [← hv.piOf_eq _ hyb, ← hv.piOf_eq _ hc3b, ← hv.piOf_eq _ (le_trans (le_trans hsc hc3y) hyb),
    ← hv.piOf_eq _ (le_trans hxsy hyb), ← hv.piOf_eq _ hs, ← isqrtN_eq (x / y), ← isqrtN_eq x] at HC
  have hxM : x ≤ M := by omega
  have hxM' : (x : ℤ) ≤ M := by exact_mod_cast hxM
  have hMz : 11 * (x : ℤ) + 4 ≤ M := by exact_mod_cast hM
  have e0 := sigma0C_ok M _ _ HC.hap (le_trans HC.hps hxM)
  have e1 := sigma1C_ok M _ _ HC.hba (le_trans HC.haa hxM)
  have r0 := (inS_iff _ _).1 (sigma0_range HC)
  have r1 := (inS_iff _ _).1 (sigma1_range HC)
  -- `x = 1`: then `y = 1`, everything is tiny; treat `x ≥ 2` and `x = 1` through the same lemmas with `M ≥ 2`
  have hM2 : 2 ≤ M := by omega
  have e2 := sigma2C_ok M _ _ _ _ hM2 HC.hdc HC.hcb (le_trans HC.hab hxM) (le_trans HC.hac hxM) (le_trans HC.hcc hxM)
    (le_trans HC.hbx hxM)
  have e3 := sigma3C_ok M _ _ (by omega) (le_trans HC.hdc HC.hcb) (le_trans HC.hb3 hxM)
  have r2 : -(((x : ℤ) + 1)) - 1 ≤ sigma2 (t.piOf y) (t.piOf (irootN 3 x)) (t.piOf (isqrtN (x / y))) (t.piOf (xStar x y)) ∧
      sigma2 (t.piOf y) (t.piOf (irootN 3 x)) (t.piOf (isqrtN (x / y))) (t.piOf (xStar x y)) ≤ (x : ℤ) + 1 := by
    have HC2 : SigmaClosedOK (x + 1) (t.piOf y) (t.piOf (irootN 3 x)) (t.piOf (isqrtN (x / y))) (t.piOf (xStar x y))
        (t.piOf (isqrtN x)) :=
      ⟨HC.hdc, HC.hcb, HC.hba, HC.hap, by have := HC.hps; omega, by have := HC.haa; omega, by have := HC.hab; omega,
        by have := HC.hac; omega, by have := HC.hcc; omega, by have := HC.hbx; omega, by have := HC.hb3; omega⟩
    have := (inS_iff _ _).1 (sigma2_range HC2 (by omega))
    push_cast at this
    exact this
  have r3 := (inS_iff _ _).1 (sigma3_range HC hx2)
  have r2' := r2
  rw [isqrtN_eq (x / y)] at r2'
  have e2' := e2
  rw [isqrtN_eq (x / y)] at e2'
  -- the prime loop
  set xs := xStar x y with hxs
  set maxPix := max (x / (xs * y)) (max y (isqrtN (x / xs))) with hmp
  have hm5 : y ≤ maxPix := le_max_of_le_right (le_max_left _ _)
  have hm6 : Nat.sqrt (x / xs) ≤ maxPix := by
    rw [← isqrtN_eq]; exact le_max_of_le_right (le_max_right _ _)
  have hsxy : isqrtN (x / y) ≤ maxPix := by
    rw [isqrtN_eq]
    exact le_trans (Nat.sqrt_le_sqrt (Nat.div_le_div_left hxsy hxs1)) hm6
  have H : SigmaLoopOK w x y xs (irootN 3 x) maxPix :=
    ⟨hy1, hxs1, hc3y, hw, le_max_left _ _, hm5, hm6⟩
  have hmem : ∀ q ∈ t.primesIn xs (irootN 3 x), xs < q ∧ q ≤ irootN 3 x := by
    intro q hq
    exact ((NT.mem_primesIn hv hc3b q).1 hq).2
  have hdy : divM x y = .ok (x / y) := divM_ok (by omega)
  have f4 := sigma4_final_le D'
  have g4 := sigma4_sum_le D'
  have g5 := sigma5_final_le D'
  have g6 := sigma6_final_le D'
  have n4 := list_sum_nonneg (l := t.primesIn xs (irootN 3 x)) (sg4_nonneg (t := t) x y (Nat.sqrt (x / y)))
  have n5 := list_sum_nonneg (l := t.primesIn xs (irootN 3 x)) (sg5_nonneg (t := t) x (Nat.sqrt (x / y)))
  have n6 := list_sum_nonneg (l := t.primesIn xs (irootN 3 x)) (sg6_nonneg (t := t) x)
  have hc3yx : (irootN 3 x : ℤ) * y ≤ x := by
    have : irootN 3 x * y ≤ x := le_trans (Nat.mul_le_mul_right y hc3y) hy2
    exact_mod_cast this
  rw [← hxs] at f4 g4 g5 g6
  generalize hS4 : ((t.primesIn xs (irootN 3 x)).map (sg4 t x y (Nat.sqrt (x / y)))).sum = S4 at *
  generalize hS5 : ((t.primesIn xs (irootN 3 x)).map (sg5 t x (Nat.sqrt (x / y)))).sum = S5 at *
  generalize hS6 : ((t.primesIn xs (irootN 3 x)).map (sg6 t x)).sum = S6 at *
  have hfold := sigma456C_fold (t := t) (M := M) H (t.primesIn xs (irootN 3 x)) ⟨0, 0, 0⟩ hmem (le_refl _) (le_refl _)
    (le_refl _) (by simp only [hS4]; omega) (by simp only [hS5]; omega) (by simp only [hS6]; omega)
  rw [hS4, hS5, hS6] at hfold
  simp only [zero_add] at hfold hparts
  have ha0 : (0 : ℤ) ≤ t.piOf y := Int.natCast_nonneg _
  have hprod0 : 0 ≤ S4 * (t.piOf y : ℤ) := mul_nonneg n4 ha0
  have hprod1 : S4 * (t.piOf y : ℤ) ≤ 6 * x := by rw [mul_comm]; exact f4
  have h5x : S5 ≤ (x : ℤ) := le_trans g5 hc3yx
  obtain ⟨⟨k1a, k1b⟩, ⟨k2a, k2b⟩, ⟨k3a, k3b⟩, ⟨k4a, k4b⟩, ⟨k5a, k5b⟩, ⟨k6a, k6b⟩, ⟨k7a, k7b⟩, k8a, k8b⟩ :=
    sigma_sums_arith hMz r0 r1 r2' r3 ⟨hprod0, hprod1⟩ ⟨n5, h5x⟩ ⟨n6, g6⟩
  -- the unchecked side
  unfold sigma
  rw [hparts]
  simp only [LM_bind_ok, LM_pure, liftL_ok]
  -- the checked side
  unfold sigmaC sigma456C
  dsimp only
  rw [← hxs, mulT_ok (le_trans (Nat.mul_le_mul_right y hxsy) hw), liftL_ok, WM_bind_ok,
    divM_ok (Nat.mul_pos hxs1 hy1).ne', liftL_ok, WM_bind_ok, narrowTo_ok h4, liftL_ok, WM_bind_ok, divM_ok (by omega),
    liftL_ok, WM_bind_ok, narrowTo_ok (by rw [isqrtN_eq]; exact h6), liftL_ok, WM_bind_ok]
  simp only [← hmp]
  rw [piGet_ok' t hm5, liftL_ok, WM_bind_ok, piGet_ok' t (le_trans hc3y hm5), liftL_ok, WM_bind_ok, hdy, liftL_ok,
    WM_bind_ok, piGet_ok' t hsxy, liftL_ok, WM_bind_ok, piGet_ok' t (le_trans hxsy hm5), liftL_ok, WM_bind_ok,
    e0, WM_bind_ok, e1, WM_bind_ok, isqrtN_eq (x / y), ckS_ok _ k1a k1b, WM_bind_ok, e2', WM_bind_ok,
    ckS_ok _ k2a k2b, WM_bind_ok, e3, WM_bind_ok, ckS_ok _ k3a k3b, WM_bind_ok,
    WM_bind_ok, isqrtN_eq (x / y), hfold, WM_bind_ok]
  dsimp only
  rw [ckS_ok _ k4a k4b, WM_bind_ok, ckS_ok _ k5a k5b, WM_bind_ok, ckS_ok _ k6a k6b, WM_bind_ok, ckS_ok _ k7a k7b,
    WM_bind_ok, ckS_ok _ k8a k8b]
  rfl

end Pc.Safety
