/-
WP close, step 5 (composition of steps 1-3): the three entry points with
  * the AC hook discharged (step 1, `GExecC` / `ApiExecC`),
  * `phi` = the L2 model of phi.cpp (step 3, `phiReal`; `PhiContract` replaced by `PhiExec`),
  * the iterator contract only up to a position `N` (step 2: `IterSpecTo T.it N` — the unbounded `IterSpec` of `TablesOK.iter` is
    FALSE of the real `primesieve::iterator`, `real_iterator_contract_bound_is_sharp`),
  * the recursion through `pi_noprint` closed.
The transfer from `IterSpec` to `IterSpecTo` goes through `P2L.patch` (CloseIter3.lean): P2 / B never query the iterator above
`max(√x, ⌊x / (y+1)⌋ + 1)`, and `P2_OpenMP` / `B_OpenMP` leave with `.narrow` when `⌊x / y⌋ ≥ 2^63`, so on EVERY `y` the region over `T.it`
and over `patch T.it N` return the same (`bOpenMP_patch_all`, `p2OpenMP_patch_all`); hence the composed functions over `T` and over
`T.withIt (patch T.it N)` are the same function (`piGourdon_withIt`, …), and `TablesOK` is only needed for the patched bundle.
-/
import PcProofs.CloseTop
import PcProofs.CloseIter3
import PcProofs.ClosePhiApi

namespace Pc.P2L
open Nat Finset Pc.LB
open scoped Nat.Prime

/-- `p2Thread_patch` with `pi_noprint` trusted only where `P2_thread` / `B_thread` call it -/
theorem p2Thread_patch_sharp {it : Iter} {N : ℕ} (hit : IterSpecTo it N) {pi : ℕ → ℕ} {x : ℕ} (y : ℕ)
    (hpi : ∀ n, n ≤ x / (y + 1) → n < x → pi n = π n) (hN1 : isqrtN x ≤ N) (hN2 : x / (y + 1) + 1 ≤ N) :
    p2Thread it pi x y = p2Thread (patch it N) pi x y := by
  funext low high
  by_cases hlow : low = 0
  · unfold p2Thread; rw [if_pos hlow, if_pos hlow]
  by_cases hlh : low < high
  · have h1 : thrStop x low ≤ N := le_trans (Nat.min_le_right _ _) hN1
    have h2 : x / (thrStart x y high + 1) + 1 ≤ N := by
      have : y ≤ thrStart x y high := Nat.le_max_left _ _
      have : x / (thrStart x y high + 1) ≤ x / (y + 1) := Nat.div_le_div_left (by omega) (by omega)
      omega
    rw [p2Thread_eq_to_sharp hit y hpi (by omega) hlh h1 h2,
      p2Thread_eq_to_sharp (patch_specTo hit) y hpi (by omega) hlh h1 h2]
  · unfold p2Thread; rw [if_neg hlow, if_neg hlow, if_pos hlh, if_pos hlh]

/-- `B_OpenMP` over `it` and over `patch it N` is the same function of `y` (for `⌊x / y⌋ ≥ 2^63` both leave with `.narrow`) -/
theorem bOpenMP_patch_all {it : Iter} {N : ℕ} (hit : IterSpecTo it N) (hN : two63 ≤ N) {pi : ℕ → ℕ} {x : ℕ}
    (hsq : isqrtN x ≤ N) (hpi : ∀ n, n < two63 → n < x → pi n = π n) (c : Consts) (y : ℕ) (r : Run) :
    bOpenMP c it pi x y r = bOpenMP c (patch it N) pi x y r := by
  unfold bOpenMP
  by_cases hx : x < 4
  · simp only [if_pos hx]
  · by_cases hxy : two63 ≤ x / max y 1
    · simp only [if_neg hx, if_pos hxy]
    · have hd : x / (y + 1) ≤ x / max y 1 := Nat.div_le_div_left (by omega) (by omega)
      have hb : ∀ it' : Iter, bThread it' pi x y = p2Thread it' pi x y := fun _ => rfl
      simp only [hb, p2Thread_patch_sharp hit y (fun n h1 h2 => hpi n (by omega) h2) hsq (by omega)]

/-- the same for `P2_OpenMP` -/
theorem p2OpenMP_patch_all {it : Iter} {N : ℕ} (hit : IterSpecTo it N) (hN : two63 ≤ N) {pi : ℕ → ℕ} {x : ℕ}
    (hsq : isqrtN x ≤ N) (hpi : ∀ n, n < two63 → n < x → pi n = π n) (c : Consts) (y a : ℕ) (r : Run) :
    p2OpenMP c it pi x y a r = p2OpenMP c (patch it N) pi x y a r := by
  unfold p2OpenMP
  by_cases hxy : two63 ≤ x / max y 1
  · simp only [if_pos hxy]
  · have hd : x / (y + 1) ≤ x / max y 1 := Nat.div_le_div_left (by omega) (by omega)
    simp only [p2Thread_patch_sharp hit y (fun n h1 h2 => hpi n (by omega) h2) hsq (by omega)]

end Pc.P2L

namespace Pc.Top
open Nat Finset Pc.LB Pc.Hard PcGen.ApiConst Pc.PhiAlgProofs Pc.ClosePhi
open scoped Nat.Prime

/-- the bundle with another iterator object -/
def Tables.withIt {σ : Type} (T : Tables σ) (it : P2L.Iter) : Tables σ := { T with it := it }

/-- `⌊√x⌋` of an int128 `x` is a position the contract covers when `N ≥ 2^64 - 2^32` -/
theorem isqrtN_le_of_lt {x N : ℕ} (hx : x < 2 ^ 127) (hN : 2 ^ 64 - 2 ^ 32 ≤ N) : isqrtN x ≤ N := by
  rw [isqrtN_eq]
  have : Nat.sqrt x < 2 ^ 64 - 2 ^ 32 := Nat.sqrt_lt.2 (lt_of_lt_of_le hx (by norm_num))
  omega

theorem two63_le_of {N : ℕ} (hN : 2 ^ 64 - 2 ^ 32 ≤ N) : two63 ≤ N := by unfold two63; omega

/-! ### the composed functions do not see the patch -/

theorem piGourdon_withIt {σ : Type} (T : Tables σ) (it' : P2L.Iter) (pi : ℕ → ℕ) (wide : Bool) (x : ℤ) (threads : ℤ)
    (isPrint : Bool) (r : GRun)
    (hb : ∀ y, P2L.bOpenMP T.lc T.it pi x.toNat y r.b = P2L.bOpenMP T.lc it' pi x.toNat y r.b) :
    piGourdon T pi wide x threads isPrint r = piGourdon (T.withIt it') pi wide x threads isPrint r := by
  unfold piGourdon Tables.withIt
  simp only [hb]

theorem piDeleglieRivat_withIt {σ : Type} (T : Tables σ) (it' : P2L.Iter) (pi : ℕ → ℕ) (wide : Bool) (x : ℤ) (threads : ℤ)
    (isPrint : Bool) (r : DrRun)
    (hb : ∀ y a, P2L.p2OpenMP T.lc T.it pi x.toNat y a r.p2 = P2L.p2OpenMP T.lc it' pi x.toNat y a r.p2) :
    piDeleglieRivat T pi wide x threads isPrint r = piDeleglieRivat (T.withIt it') pi wide x threads isPrint r := by
  unfold piDeleglieRivat drS2 Tables.withIt
  simp only [hb]

/-! ### hypothesis structures do not mention the iterator -/

theorem GExecC.withIt {σ : Type} {T : Tables σ} {B : ℕ} {wide : Bool} {x : ℕ} {r : GRun} (h : GExecC T B wide x r)
    (it' : P2L.Iter) : GExecC (T.withIt it') B wide x r :=
  ⟨⟨h.adm.env, h.adm.phi0, h.adm.b, ⟨h.adm.ac.sched, h.adm.ac.chain⟩⟩, h.accept, h.yB,
    ⟨h.reach.hy, h.reach.hs, h.reach.hm4, h.reach.h63⟩⟩

theorem DrExec.withIt {σ : Type} {T : Tables σ} {B : ℕ} {wide : Bool} {x : ℕ} {r : DrRun} (h : DrExec T B wide x r)
    (it' : P2L.Iter) : DrExec (T.withIt it') B wide x r :=
  ⟨⟨h.adm.env, h.adm.p2, h.adm.s1, h.adm.easy⟩, h.accept, h.h53, h.yB, h.yb⟩

/-! ### Gourdon, Deleglise-Rivat -/

/-- `piGourdon_total_closed` with the iterator contract up to `N` only -/
theorem piGourdon_total_to {σ : Type} (T : Tables σ) {B N : ℕ} (hT : TablesOK (T.withIt (P2L.patch T.it N)) B)
    (hit : P2L.IterSpecTo T.it N) (hN : 2 ^ 64 - 2 ^ 32 ≤ N) (pi : ℕ → ℕ) (wide : Bool) (x : ℤ)
    (hx : InType wide x) (hsmall : x < 2 ∨ 2401 ≤ x) (threads : ℤ) (isPrint : Bool) (r : GRun)
    (hpi : ∀ n : ℕ, (n : ℤ) < x → n < 2 ^ 63 → pi n = π n) (hex : 2 ≤ x → GExecC T B wide x.toNat r) :
    piGourdon T pi wide x threads isPrint r = .ok (π x.toNat : ℤ) ∨
      piGourdon T pi wide x threads isPrint r = .error (.hard .badRun) := by
  have hx127 : x.toNat < 2 ^ 127 := by
    have : x < 2 ^ 127 := by
      unfold InType at hx
      cases wide
      · simp at hx; omega
      · simpa using hx
    omega
  have hb : ∀ y, P2L.bOpenMP T.lc T.it pi x.toNat y r.b = P2L.bOpenMP T.lc (P2L.patch T.it N) pi x.toNat y r.b :=
    fun y => P2L.bOpenMP_patch_all hit (two63_le_of hN) (isqrtN_le_of_lt hx127 hN)
      (fun n h1 h2 => hpi n (by omega) (by unfold two63 at h1; exact h1)) T.lc y r.b
  rw [piGourdon_withIt T (P2L.patch T.it N) pi wide x threads isPrint r hb]
  exact piGourdon_total_closed (T.withIt (P2L.patch T.it N)) hT pi wide x hx hsmall threads isPrint r hpi
    (fun h => (hex h).withIt _)

/-- `piDeleglieRivat_total` (64-bit) with the iterator contract up to `N` only -/
theorem piDeleglieRivat64_total_to {σ : Type} (T : Tables σ) {B N : ℕ} (hT : TablesOK (T.withIt (P2L.patch T.it N)) B)
    (hit : P2L.IterSpecTo T.it N) (hN : 2 ^ 64 - 2 ^ 32 ≤ N) (pi : ℕ → ℕ) (x : ℤ)
    (hx : x < 2 ^ 63) (threads : ℤ) (isPrint : Bool) (r : DrRun)
    (hpi : ∀ n : ℕ, (n : ℤ) < x → pi n = π n) (hex : 2 ≤ x → DrExec T B false x.toNat r) :
    piDeleglieRivat T pi false x threads isPrint r = .ok (π x.toNat : ℤ) ∨
      piDeleglieRivat T pi false x threads isPrint r = .error (.hard .badRun) := by
  have hx127 : x.toNat < 2 ^ 127 := by omega
  have hb : ∀ y a, P2L.p2OpenMP T.lc T.it pi x.toNat y a r.p2 = P2L.p2OpenMP T.lc (P2L.patch T.it N) pi x.toNat y a r.p2 :=
    fun y a => P2L.p2OpenMP_patch_all hit (two63_le_of hN) (isqrtN_le_of_lt hx127 hN)
      (fun n _ h2 => hpi n (by omega)) T.lc y a r.p2
  rw [piDeleglieRivat_withIt T (P2L.patch T.it N) pi false x threads isPrint r hb]
  exact piDeleglieRivat_total (T.withIt (P2L.patch T.it N)) hT pi false x (by unfold InType; simpa using hx) threads isPrint r
    hpi (fun h => (hex h).withIt _)

/-! ### the dispatcher: one level, with the phi model inside -/

theorem piApi64_step_world {σ : Type} (T : Tables σ) {B N : ℕ} (hT : TablesOK (T.withIt (P2L.patch T.it N)) B)
    (hit : P2L.IterSpecTo T.it N) (hN : 2 ^ 64 - 2 ^ 32 ≤ N)
    (P : ℕ → ℕ → PhiTop) (order : ℕ → ℕ → List ℕ) (sched : ℕ → ℕ → ℕ → PhiCacheL1 × ℕ) (pi : ℕ → ℕ) (x : ℤ)
    (hx : x < 2 ^ 63) (threads : ℤ) (isPrint : Bool) (r : ApiRun)
    (hphi : PhiExec P order sched x.toNat) (hpi : ∀ n : ℕ, (n : ℤ) < x → pi n = π n)
    (hex : (maxCached : ℤ) < x → ApiExecC T B false x.toNat r) :
    piApi64 T (phiReal P order sched) pi x threads isPrint r = .ok (π x.toNat : ℤ) ∨
      piApi64 T (phiReal P order sched) pi x threads isPrint r = .error (.hard .badRun) := by
  have c1 : (maxCached : ℤ) = 30719 := rfl
  have c2 : (legendreMax : ℤ) = 100000 := rfl
  have c3 : (meisselMax : ℤ) = 100000000 := rfl
  have n1 : maxCached = 30719 := rfl
  have l1 : legendreMax = 100000 := rfl
  have l2 : meisselMax = 100000000 := rfl
  unfold piApi64
  split_ifs with h1 h2 h3
  · left; rw [piCacheTop_eq x h1]
  · left
    have hpi' : ∀ m, m < x.toNat → pi m = π m := fun m hm => hpi m (by omega)
    rw [P2L.piLegendre_eq hpi' (phiReal_eq P order sched _ _ (hphi.legendre (by omega) (by omega)) le_rfl)]
  · left
    have hpi' : ∀ m, m < x.toNat → pi m = π m := fun m hm => hpi m (by omega)
    have hex' := hex (by omega)
    have hxy : x.toNat / max (irootN 3 x.toNat) 1 < two63 := by
      have : x.toNat / max (irootN 3 x.toNat) 1 ≤ x.toNat := Nat.div_le_self _ _
      unfold two63; omega
    rw [P2L.piMeissel_to hit (two63_le_of hN) hpi'
      (phiReal_eq P order sched _ _ (hphi.meissel (by omega) (by omega)) (pi_iroot3_le_pi_sqrt _)) T.lc hT.consts hxy r.meissel
      (fun a b => hex'.meissel (by omega) (by omega) a b)]
    rfl
  · have hex' := hex (by omega)
    exact piGourdon_total_to T hT hit hN pi false x (by unfold InType; simpa using hx) (Or.inr (by omega)) threads isPrint
      r.gourdon (fun n hn _ => hpi n hn) (fun _ => hex'.gourdon (by omega))

/-- "the nested calls are computed by the dispatcher" for the world with the phi model -/
def NestedByDispatcherW {σ : Type} (T : Tables σ) (B : ℕ) (P : ℕ → ℕ → PhiTop) (order : ℕ → ℕ → List ℕ)
    (sched : ℕ → ℕ → ℕ → PhiCacheL1 × ℕ) (pi : ℕ → ℕ) (x : ℤ) : Prop :=
  ∀ n : ℕ, (n : ℤ) < x → n < 2 ^ 63 → ∃ (threads : ℤ) (r : ApiRun), (maxCached < n → ApiExecC T B false n r) ∧
    piApi64 T (phiReal P order sched) pi (n : ℤ) threads false r = .ok (pi n : ℤ)

/-- the recursion closes -/
theorem nested_pi_eq_world {σ : Type} (T : Tables σ) {B N : ℕ} (hT : TablesOK (T.withIt (P2L.patch T.it N)) B)
    (hit : P2L.IterSpecTo T.it N) (hN : 2 ^ 64 - 2 ^ 32 ≤ N)
    (P : ℕ → ℕ → PhiTop) (order : ℕ → ℕ → List ℕ) (sched : ℕ → ℕ → ℕ → PhiCacheL1 × ℕ) (pi : ℕ → ℕ) (x : ℤ)
    (hphi : ∀ n : ℕ, (n : ℤ) < x → n < 2 ^ 63 → PhiExec P order sched n)
    (hrec : NestedByDispatcherW T B P order sched pi x) :
    ∀ n : ℕ, (n : ℤ) < x → n < 2 ^ 63 → pi n = π n := by
  intro n
  induction n using Nat.strong_induction_on with
  | _ n ih =>
    intro hn h63
    obtain ⟨threads, r, hex, hres⟩ := hrec n hn h63
    have hpi : ∀ m : ℕ, (m : ℤ) < (n : ℤ) → pi m = π m := fun m hm =>
      ih m (by exact_mod_cast hm) (by omega) (by omega)
    have hstep := piApi64_step_world T hT hit hN P order sched pi (n : ℤ) (by exact_mod_cast h63) threads false r
      (by rw [Int.toNat_natCast]; exact hphi n hn h63) hpi
      (fun h => by rw [Int.toNat_natCast]; exact hex (by exact_mod_cast h))
    rw [Int.toNat_natCast] at hstep
    rcases hstep with h | h
    · rw [hres] at h
      have : (pi n : ℤ) = (π n : ℤ) := by injection h
      exact_mod_cast this
    · rw [hres] at h; cases h

/-- **`pi(int128_t x)`**, every int128 `x` -/
theorem piApi128_world {σ : Type} (T : Tables σ) {B N : ℕ} (hT : TablesOK (T.withIt (P2L.patch T.it N)) B)
    (hit : P2L.IterSpecTo T.it N) (hN : 2 ^ 64 - 2 ^ 32 ≤ N)
    (P : ℕ → ℕ → PhiTop) (order : ℕ → ℕ → List ℕ) (sched : ℕ → ℕ → ℕ → PhiCacheL1 × ℕ) (pi : ℕ → ℕ) (x : ℤ)
    (hx : x < 2 ^ 127) (threads : ℤ) (isPrint : Bool) (r : ApiRun)
    (hphi : ∀ n : ℕ, (n : ℤ) ≤ x → n < 2 ^ 63 → PhiExec P order sched n)
    (hrec : NestedByDispatcherW T B P order sched pi x)
    (hex : (maxCached : ℤ) < x → ApiExecC T B (decide ((PiApi.int64Max : ℤ) < x)) x.toNat r) :
    piApi128 T (phiReal P order sched) pi x threads isPrint r = .ok (π x.toNat : ℤ) ∨
      piApi128 T (phiReal P order sched) pi x threads isPrint r = .error (.hard .badRun) := by
  have hpi := nested_pi_eq_world T hT hit hN P order sched pi x (fun n hn h63 => hphi n (by omega) h63) hrec
  have c0 : (PiApi.int64Max : ℤ) = 2 ^ 63 - 1 := by unfold PiApi.int64Max; norm_num
  have c1 : (maxCached : ℤ) = 30719 := rfl
  have l2 : meisselMax = 100000000 := rfl
  unfold piApi128
  split_ifs with h1 h2
  · left
    have : x.toNat = 0 := by omega
    rw [this]; rfl
  · have hd : decide ((PiApi.int64Max : ℤ) < x) = false := by simp; omega
    rw [hd] at hex
    exact piApi64_step_world T hT hit hN P order sched pi x (by omega) threads isPrint r
      (hphi x.toNat (by omega) (by omega)) (fun n hn => hpi n hn (by omega)) hex
  · have hd : decide ((PiApi.int64Max : ℤ) < x) = true := by simp; omega
    rw [hd] at hex
    have hex' := hex (by omega)
    exact piGourdon_total_to T hT hit hN pi true x (by unfold InType; simpa using hx) (Or.inr (by omega)) threads isPrint
      r.gourdon hpi (fun _ => hex'.gourdon (by omega))

/-- **`pi_gourdon_64(x)`**, int64 `x` with `x < 2 ∨ x ≥ 2401` -/
theorem piGourdon64_world {σ : Type} (T : Tables σ) {B N : ℕ} (hT : TablesOK (T.withIt (P2L.patch T.it N)) B)
    (hit : P2L.IterSpecTo T.it N) (hN : 2 ^ 64 - 2 ^ 32 ≤ N)
    (P : ℕ → ℕ → PhiTop) (order : ℕ → ℕ → List ℕ) (sched : ℕ → ℕ → ℕ → PhiCacheL1 × ℕ) (pi : ℕ → ℕ) (x : ℤ)
    (hx : x < 2 ^ 63) (hsmall : x < 2 ∨ 2401 ≤ x) (threads : ℤ) (isPrint : Bool) (r : GRun)
    (hphi : ∀ n : ℕ, (n : ℤ) < x → n < 2 ^ 63 → PhiExec P order sched n)
    (hrec : NestedByDispatcherW T B P order sched pi x)
    (hex : 2 ≤ x → GExecC T B false x.toNat r) :
    piGourdon T pi false x threads isPrint r = .ok (π x.toNat : ℤ) ∨
      piGourdon T pi false x threads isPrint r = .error (.hard .badRun) :=
  piGourdon_total_to T hT hit hN pi false x (by unfold InType; simpa using hx) hsmall threads isPrint r
    (nested_pi_eq_world T hT hit hN P order sched pi x hphi hrec) hex

/-- **`pi_deleglise_rivat_64(x)`**, EVERY int64 `x` -/
theorem piDeleglieRivat64_world {σ : Type} (T : Tables σ) {B N : ℕ} (hT : TablesOK (T.withIt (P2L.patch T.it N)) B)
    (hit : P2L.IterSpecTo T.it N) (hN : 2 ^ 64 - 2 ^ 32 ≤ N)
    (P : ℕ → ℕ → PhiTop) (order : ℕ → ℕ → List ℕ) (sched : ℕ → ℕ → ℕ → PhiCacheL1 × ℕ) (pi : ℕ → ℕ) (x : ℤ)
    (hx : x < 2 ^ 63) (threads : ℤ) (isPrint : Bool) (r : DrRun)
    (hphi : ∀ n : ℕ, (n : ℤ) < x → n < 2 ^ 63 → PhiExec P order sched n)
    (hrec : NestedByDispatcherW T B P order sched pi x)
    (hex : 2 ≤ x → DrExec T B false x.toNat r) :
    piDeleglieRivat T pi false x threads isPrint r = .ok (π x.toNat : ℤ) ∨
      piDeleglieRivat T pi false x threads isPrint r = .error (.hard .badRun) :=
  piDeleglieRivat64_total_to T hT hit hN pi x hx threads isPrint r
    (fun n hn => nested_pi_eq_world T hT hit hN P order sched pi x hphi hrec n hn (by
      have : (n : ℤ) < 2 ^ 63 := lt_trans hn hx
      exact_mod_cast this)) hex

end Pc.Top
