/-
WP close: the closed hypothesis structures are satisfiable — a COMPLETE concrete execution of `pi_gourdon_64(100000)` under
`alpha_y = 1`, `alpha_z = 2` (y = 47, z = 94, k = 7, x⋆ = 45): real float outcomes inside `GourdonEnv`, a static distribution of
Phi0's iterations, a recorded valid run of B's region, a static distribution of AC's C1 loop and the two segments
`[240, 316)`, `[0, 240)` (in that order) handed out by LoadBalancerAC — meeting `GExecC`; nothing about the AC model is assumed.
-/
import PcProofs.CloseAC
import PcProofs.TopAlgsEx

namespace Pc.Top
open Nat Finset Pc.LB Pc.Hard PcGen.ApiConst
open scoped Nat.Prime

def exGFloats : GFloats := { maxX := 9903520314283042199192993792, v := 46, w := fun y => 2 * y, mt := fun _ => 6 }

/-- a complete accepted history of `B_OpenMP(100000, 47)`: one thread, chunk `[316, 2127)` -/
def exBRun : P2L.Run := { team := 1, print := false, es := [⟨0, true, 316, 2127⟩, ⟨0, false, 2127, 2127⟩], order := [0] }

def exGRun (t : NT) : GRun :=
  { fo := exGFloats, phi0 := staticSched1 8 15 2, acC1 := staticSched1 (Easy.c1Lo t 100000 94 7) (Easy.c1Hi t 94) 3,
    acSegs := [(240, 316), (0, 240)], b := exBRun, d := [] }

theorem sqrt_1e5 : Nat.sqrt 100000 = 316 := (Nat.eq_sqrt.2 ⟨by norm_num, by norm_num⟩).symm
theorem iroot4_1e5 : irootN 4 100000 = 17 := irootN_eq_of (by norm_num) (by norm_num) (by norm_num)

theorem exGY : gY 100000 exGFloats.v = 47 := by
  unfold gY clampY exGFloats
  rw [iroot3_1e5, isqrtN_eq, sqrt_1e5]
  decide

theorem exGZ : gZ 100000 47 (exGFloats.w 47) = 94 := by
  unfold gZ clampZ exGFloats
  rw [isqrtN_eq, sqrt_1e5]
  decide

theorem exGK : getK 100000 = 7 := by
  unfold getK
  rw [iroot4_1e5]
  decide

theorem exGEnv : GourdonEnv 100000 1 2 exGFloats := by
  unfold GourdonEnv
  rw [exGY, exGZ]
  have ht : ((100000 : ℕ) : ℤ) / 94 = 1063 := by decide
  unfold TruncNear MaxXNear PowThreadsNear exGFloats relEps
  simp only []
  rw [iroot3_1e5, iroot6_1e5, ht]
  norm_num

theorem pi47 : π 47 = 15 := by decide

/-- a complete, non-trivial instance of the hypotheses of `piGourdon_eq_pi` (`k = 7 ≥ 4`, Phi0 levels 8..15, two AC segments) -/
theorem exGExecC : GExecC (idealTables 3000) 100 false 100000 (exGRun (idealTables 3000).t) where
  adm :=
    { env := ⟨1, 2, exGEnv⟩
      phi0 := by
        show IsSchedule (getK 100000 + 1) (π (gY 100000 exGFloats.v).toNat) (staticSched1 8 15 2)
        rw [exGK, exGY]
        show IsSchedule 8 (π 47) _
        rw [pi47]
        exact staticSched1_isSchedule 8 15 (by decide)
      b := fun _ => by
        show exBRun.valid genConsts 100000 (100000 / max (gY 100000 exGFloats.v).toNat 1) = true
        rw [exGY]
        decide
      ac := by
        show AcRunOK _ 100000 (gZ 100000 (gY 100000 exGFloats.v) (exGFloats.w (gY 100000 exGFloats.v))).toNat (getK 100000) _ _
        rw [exGY, exGZ, exGK]
        exact ⟨staticSched1_isSchedule _ _ (by decide),
          [240, 316], by simp, by rw [sqrt_1e5]; rfl, List.Perm.swap _ _ _⟩ }
  accept := fun h => absurd h (by simp)
  yB := by
    show (gY 100000 exGFloats.v).toNat ≤ 100
    rw [exGY]; decide
  reach := by
    show GReach (idealTables 3000).t 100000 (gY 100000 exGFloats.v).toNat
    rw [exGY]
    refine ⟨by show (47 : ℤ).toNat ≤ 3000; decide, by rw [sqrt_1e5]; show 316 ≤ 3000; decide, ?_,
      by show 3000 ≤ _; decide⟩
    show 100000 / (xStar 100000 (47 : ℤ).toNat * (47 : ℤ).toNat) ≤ 3000
    have h47 : (47 : ℤ).toNat = 47 := by decide
    rw [h47]
    rcases Nat.eq_zero_or_pos (xStar 100000 47) with h0 | h0
    · rw [h0]; simp
    · calc 100000 / (xStar 100000 47 * 47) ≤ 100000 / 47 := Nat.div_le_div_left (Nat.le_mul_of_pos_left 47 h0) (by decide)
        _ ≤ 3000 := by decide

end Pc.Top
