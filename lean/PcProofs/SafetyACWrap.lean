/-
WP safety4: `wrapS N v = v` iff `v` is representable; instantiated with `AC_value_bounds`.
-/
import PcProofs.SafetyACAbs
import PcModel.SafetyAC

namespace Pc.Safety

theorem wrapS_eq {bits : ℕ} (hb : 1 ≤ bits) {v : ℤ} (h1 : -(2 : ℤ) ^ (bits - 1) ≤ v) (h2 : v < (2 : ℤ) ^ (bits - 1)) :
    wrapS bits v = v := by
  unfold wrapS
  have hp : (2 : ℤ) ^ bits = 2 ^ (bits - 1) + 2 ^ (bits - 1) := by
    have : bits = (bits - 1) + 1 := by omega
    rw [this, pow_succ]; simp; ring
  rw [Int.emod_eq_of_lt (by omega) (by omega)]
  ring

theorem wrapS_ne {bits : ℕ} (hb : 1 ≤ bits) {v : ℤ} (h : v < -(2 : ℤ) ^ (bits - 1) ∨ (2 : ℤ) ^ (bits - 1) ≤ v) :
    wrapS bits v ≠ v := by
  unfold wrapS
  have hpos : (0 : ℤ) < 2 ^ bits := by positivity
  have hp : (2 : ℤ) ^ bits = 2 ^ (bits - 1) + 2 ^ (bits - 1) := by
    have : bits = (bits - 1) + 1 := by omega
    rw [this, pow_succ]; simp; ring
  have h1 := Int.emod_nonneg (v + 2 ^ (bits - 1)) hpos.ne'
  have h2 := Int.emod_lt_of_pos (v + 2 ^ (bits - 1)) hpos
  omega

end Pc.Safety

#print axioms Pc.Safety.wrapS_eq
