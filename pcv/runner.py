"""Generic flow of one property check (DESIGN.md 3.1): build, translate, prove, audit,
correspond, (on break) search for a witness, write evidence."""
import importlib
import json
import os
import random
import re
import sys
import time
import traceback

from . import core


class Stream:
    """A correspondence stream.

    ops      : list of op lines sent to the harness (real code).
    model_ops: None (same lines are sent to pcdrv) or a function (ops, impl_out) -> lines for pcdrv.
    judge    : None (line-by-line equality) or function (ops, impl_out, model_ops, model_out) -> list of
               dicts {index, op, impl, model, ...}.
    oracle   : True when the model side is a *proved* spec value, so that a disagreement is itself a
               failing input of the property; False when the model is an exact mirror whose mismatch may
               be harmless (then `fallback` decides).
    nontrivial: function (op, impl_result) -> hashable key or None, used to count distinct non-trivial cases.
    """

    def __init__(self, name, ops, oracle=True, model_ops=None, judge=None, nontrivial=None,
                 variant="rel", env=None, timeout=900, classify=None):
        self.name, self.ops, self.oracle = name, ops, oracle
        self.model_ops, self.judge, self.nontrivial = model_ops, judge, nontrivial
        self.variant, self.env, self.timeout = variant, env, timeout
        self.classify = classify


class Result:
    def __init__(self):
        self.violations = []       # list of dict(kind, detail, witness, nofail)
        self.known = []
        self.notes = []
        self.stream_stats = {}
        self.samples = []
        self.evaluations = 0
        self.distinct = set()
        self.obligations = 0
        self.discharged = 0
        self.theorems = {}
        self.extra = {}


class Ctx:
    def __init__(self, pid, tier, seed):
        self.pid, self.tier, self.seed = pid, tier, seed
        self.rng = random.Random((hash(pid) & 0xffff) * 1000003 + seed) if False else random.Random("%s/%d" % (pid, seed))
        self.res = Result()
        self.t0 = time.time()

    @property
    def quick(self):
        return self.tier == "quick"


def _first_lean_error(logtxt):
    m = re.search(r"error: ([^\n]*\.lean:\d+:\d+:[^\n]*(?:\n[^\n]*){0,6})", logtxt)
    if m:
        return m.group(1)
    m = re.search(r"(error[^\n]*(?:\n[^\n]*){0,6})", logtxt)
    return m.group(1) if m else logtxt[-1500:]


def extra_stream_modules(pid):
    out = []
    d = os.path.join(os.path.dirname(os.path.abspath(__file__)), "props")
    for f in sorted(os.listdir(d)):
        if re.fullmatch(re.escape(pid.lower()) + r"_[a-z0-9_]+\.py", f):
            out.append(importlib.import_module("pcv.props." + f[:-3]))
    return out


def run_stream(ctx, st):
    """Run one stream; returns list of disagreements."""
    res = ctx.res
    exe = core.ensure_harness(st.variant)
    impl, dis = [], []
    secs, rc, restarts = 0.0, 0, 0
    while len(impl) < len(st.ops):
        rest = st.ops[len(impl):]
        rc, out, err, s1 = core.run_harness(exe, "\n".join(rest) + "\n", timeout=st.timeout, env=st.env)
        secs += s1
        impl += out[:len(rest)]
        if len(out) >= len(rest):
            break
        # the harness died (sanitizer abort, crash, hang): the first unanswered op is the suspect
        idx = len(impl)
        kind = "HANG" if rc in (3, 124) else "CRASH"
        dis.append(dict(index=idx, op=st.ops[idx], impl="%s rc=%d %s" % (kind, rc, (err[:1500] + " ... " + err[-1500:]) if len(err) > 3000 else err),
                        model="(see model output)", crash=True))
        impl.append(kind)
        restarts += 1
        if restarts >= 6:
            impl += ["SKIPPED"] * (len(st.ops) - len(impl))
            break
    stat = dict(ops=len(st.ops), impl_secs=round(secs, 2), impl_rc=rc, restarts=restarts)
    mops = st.ops if st.model_ops is None else st.model_ops(st.ops, impl)
    rc2, model, err2, secs2 = core.run_model("\n".join(mops) + "\n", timeout=st.timeout)
    stat.update(model_secs=round(secs2, 2), model_rc=rc2)
    if rc2 != 0 or len(model) != len(mops):
        dis.append(dict(index=len(model), op=mops[min(len(model), len(mops) - 1)] if mops else "",
                        impl="?", model="MODEL-CRASH rc=%d %s" % (rc2, err2[-800:]), model_crash=True))
        model = model + ["MODEL-CRASH"] * (len(mops) - len(model))
    if st.judge is not None:
        dis += st.judge(st.ops, impl, mops, model)
    else:
        for i, (o, a, b) in enumerate(zip(st.ops, impl, model)):
            if a in ("HANG", "CRASH", "SKIPPED"):
                for d in dis:
                    if d.get("index") == i:
                        d["model"] = b
                continue
            if a != b:
                dis.append(dict(index=i, op=o, impl=a, model=b))
    # statistics
    res.evaluations += len(st.ops)
    classes = {}
    for o, a in zip(st.ops, impl):
        if st.nontrivial is not None:
            k = st.nontrivial(o, a)
            if k is not None:
                res.distinct.add((st.name, k))
        else:
            res.distinct.add((st.name, o))
        if st.classify is not None:
            c = st.classify(o, a)
            classes[c] = classes.get(c, 0) + 1
    if classes:
        stat["classes"] = classes
    stat["disagreements"] = len(dis)
    res.stream_stats[st.name] = stat
    k = max(1, len(st.ops) // 3)
    for i in list(range(0, len(st.ops), k))[:3]:
        res.samples.append({"stream": st.name, "op": st.ops[i], "impl": impl[i][:200],
                            "model": (model[i][:200] if i < len(model) else None)})
    for d in dis:
        d["stream"] = st.name
        if d.get("crash"):
            d["oracle"] = True              # the real code crashed / hung on this op: that op IS a failing input
        d.setdefault("oracle", st.oracle)   # a judge may decide per disagreement (L1 monitor: is the PROPERTY itself violated?)
    return dis


def emit_violation(ctx, kind, detail, witness=None):
    """Record a violation (or a KNOWN-FINDING if listed)."""
    pid = ctx.pid
    key = (witness or {}).get("key")
    if key:
        for (p, k, what) in core.known_findings():
            if p == pid and k == key:
                ctx.res.known.append("KNOWN-FINDING: property=%s key=%s %s" % (pid, key, what))
                return
    ctx.res.violations.append(dict(kind=kind, detail=detail, witness=witness))


def finish(ctx, mod, level_note):
    res = ctx.res
    pid = ctx.pid
    wall = time.time() - ctx.t0
    ev = {
        "property_id": pid, "tier": ctx.tier, "seed": ctx.seed, "level": "proof",
        "coverage": {
            "obligations": res.obligations, "discharged": res.discharged,
            "checker_cmd": "cd /verif/lean && lake build PcProps.%s pcdrv && lake env lean PcProps/%s.lean  (axiom audit; thorough: lake env leanchecker PcProps.%s)" % (pid, pid, pid),
            "trusted_base": getattr(mod, "TRUSTED", []) + [t for em in extra_stream_modules(pid) for t in getattr(em, "TRUSTED", [])] + [
                "Lean 4.33.0 kernel; axioms allowed: propext, Classical.choice, Quot.sound (measured per theorem below)",
                "Mathlib v4.33.0 definitions used as vocabulary",
                "translator /verif/translator + sampled correspondence harness<->pcdrv (differential testing)"],
            "theorem_axioms": res.theorems,
            "evaluations": res.evaluations,
            "distinct_nontrivial": len(res.distinct),
            "rule": " || ".join([getattr(mod, "RULE", "ops generated from VERIF_SEED; distinct = distinct op lines")] +
                                [em.RULE for em in extra_stream_modules(pid) if hasattr(em, "RULE")]),
            "samples": res.samples[:12] if res.samples else [{"note": "no correspondence stream in this check"}],
            "streams": res.stream_stats,
            "known_findings_hit": res.known,
            "notes": res.notes,
        },
        "assumptions": getattr(mod, "ASSUMPTIONS", []) + [t for em in extra_stream_modules(pid) for t in getattr(em, "ASSUMPTIONS", [])],
        "wall_s": round(wall, 2),
        "violations": len(res.violations),
    }
    ev["coverage"].update(res.extra)
    core.write_json(os.path.join(core.EVID, pid + ".json"), ev)
    for k in res.known:
        print(k)
    # stale witnesses of earlier runs must not linger
    if os.path.isdir(core.REPLAY):
        for f in os.listdir(core.REPLAY):
            if re.fullmatch(re.escape(pid) + r"-\d+\.json", f):
                os.remove(os.path.join(core.REPLAY, f))
    if res.violations:
        for n, v in enumerate(res.violations):
            path = os.path.join(core.REPLAY, "%s-%d.json" % (pid, n))
            core.write_json(path, dict(property=pid, seed=ctx.seed, tier=ctx.tier, **v))
            nofail = "" if (v.get("witness") and v["witness"].get("failing_input") is not None) else " no-failing-input-found"
            print("VIOLATION property=%s replay=%s%s" % (pid, path, nofail))
        return 1
    print("OK property=%s tier=%s seed=%d obligations=%d/%d evaluations=%d wall=%.1fs" % (
        pid, ctx.tier, ctx.seed, res.discharged, res.obligations, res.evaluations, wall))
    return 0


def check_property(pid, tier, seed):
    mod = importlib.import_module("pcv.props." + pid.lower())
    ctx = Ctx(pid, tier, seed)
    res = ctx.res
    try:
        # 1. build
        for v in getattr(mod, "VARIANTS", ["rel"]):
            core.ensure_harness(v)
        # 2. translate
        from . import translate
        tinfo = translate.run_all()
        res.extra["translator"] = tinfo
        relevant = list(getattr(mod, "EXTRACTORS", []))
        if os.path.exists(os.path.join(core.LEAN, "PcProps", pid + "Src.lean")):
            relevant.append("extract_srcmirror")        # PcProps/<pid>Src.lean: source-mirror obligations of this property
        for name, inf in tinfo.items():
            if isinstance(inf, dict) and "extractor_shape_changed" in inf and name in relevant:
                emit_violation(ctx, "translator", "%s no longer recognises its source region: %s" % (name, inf["extractor_shape_changed"]),
                               dict(failing_input=None, broken="translator " + name))
        # 3. prove
        lean_mod = "PcProps." + pid
        from . import gendriver
        gendriver.generate()
        rc, logtxt, secs = core.lake_build(["pcdrv"])
        if rc != 0:
            emit_violation(ctx, "driver-build", _first_lean_error(logtxt),
                           dict(failing_input=None, broken="lake build pcdrv", log=logtxt[-4000:]))
            return finish(ctx, mod, "")
        # EXTRA_MODULES: further property-theorem files of this property (PcProps/<Cxx><Suffix>.lean), audited the same way
        # ... plus every lean/PcProps/<Cxx><Suffix>.lean (Suffix starting with a capital letter) found on disk
        extra = list(getattr(mod, "EXTRA_MODULES", []))
        for f in sorted(os.listdir(os.path.join(core.LEAN, "PcProps"))):
            m = re.fullmatch(re.escape(pid) + r"[A-Z][A-Za-z0-9]*\.lean", f)
            if m and f[:-5] not in extra:
                extra.append(f[:-5])
        lean_mods = [lean_mod] + ["PcProps." + m for m in extra]
        rc, logtxt, secs = core.lake_build(lean_mods)
        res.extra["lake_secs"] = round(secs, 1)
        res.extra["lean_modules"] = lean_mods
        proof_broken = None
        if rc != 0:
            proof_broken = _first_lean_error(logtxt)
        # 4. audit
        hits = core.source_audit()
        declared, ax = [], {}
        if proof_broken is None:
            # the property modules are elaborated independently of each other: audit them in parallel
            import concurrent.futures as cf
            with cf.ThreadPoolExecutor(max_workers=min(8, max(1, len(lean_mods)))) as ex:
                audits = list(ex.map(core.axiom_audit, lean_mods))
            for lm, (d1, ax1, raw, arc) in zip(lean_mods, audits):
                declared += d1
                ax.update(ax1)
                if arc != 0 and proof_broken is None:
                    proof_broken = _first_lean_error(raw)
        gen_obl = getattr(mod, "generated_obligations", lambda: 0)()
        res.obligations = len(declared) + gen_obl
        bad = []
        for t in declared:
            full = [k for k in ax if k == t or k.endswith("." + t)]
            if not full:
                bad.append("%s: no #print axioms line" % t)
            elif not set(ax[full[0]]) <= core.ALLOWED_AXIOMS:
                bad.append("%s: axioms %s" % (t, ax[full[0]]))
        res.theorems = ax
        res.discharged = (len(declared) - len(bad) + gen_obl) if proof_broken is None else 0
        if hits:
            bad += ["forbidden construct: " + h for h in hits]
        # 5. correspond
        all_dis = []
        streams = mod.streams(ctx)
        # extra stream modules pcv/props/<cxx>_<name>.py (each with streams(ctx), optional RULE / TRUSTED / ASSUMPTIONS)
        for em in extra_stream_modules(pid):
            streams += em.streams(ctx)
        for st in streams:
            all_dis += run_stream(ctx, st)
        # 6. on break
        if proof_broken or bad or all_dis:
            mod_search = getattr(mod, "search", None)
            handled = False
            if mod_search is not None:
                handled = mod_search(ctx, proof_broken, bad, all_dis)
            if not handled:
                default_search(ctx, proof_broken, bad, all_dis)
        if tier == "thorough" and not res.violations:
            for lm in lean_mods:
                rc, out, err, secs = core.run(["lake", "env", "leanchecker", lm], cwd=core.LEAN, timeout=3600)
                res.extra.setdefault("leanchecker", {})[lm] = dict(rc=rc, secs=round(secs, 1), tail=(out + err)[-300:])
                if rc != 0:
                    emit_violation(ctx, "leanchecker", (out + err)[-1500:], dict(failing_input=None, broken="leanchecker " + lm))
    except core.BuildError as e:
        emit_violation(ctx, "build", str(e)[-3000:], dict(failing_input=None, broken="build of /repo or harness"))
    except Exception as e:
        emit_violation(ctx, "internal", traceback.format_exc()[-3000:], dict(failing_input=None, broken="check machinery"))
    return finish(ctx, mod, "")


def default_search(ctx, proof_broken, bad, dis):
    """Oracle disagreements are failing inputs; everything else is reported without one."""
    seen = 0
    # failing inputs first: the report slots must not be used up by mirror disagreements when an oracle stream
    # (or a crash of the real code) already names an input on which the property fails
    dis = sorted(dis, key=lambda d: 0 if (d.get("oracle") and not d.get("model_crash")) else 1)
    for d in dis:
        if d.get("oracle") and not d.get("model_crash"):
            if seen < 5:
                emit_violation(ctx, "correspondence", "stream %s: implementation differs from the proved spec value" % d["stream"],
                               dict(failing_input=d["op"], expected=d["model"], observed=d["impl"], stream=d["stream"],
                                    key="%s:%s" % (d["stream"], d["op"].replace(" ", "_")),
                                    replay_hint="echo '%s' | <cache>/rel/pcharness   vs   | lean/.lake/build/bin/pcdrv" % d["op"]))
            seen += 1
        else:
            if seen < 5:
                emit_violation(ctx, "correspondence", "stream %s: model and implementation differ" % d["stream"],
                               dict(failing_input=None, broken="correspondence stream " + d["stream"], op=d["op"],
                                    model=d["model"], impl=d["impl"]))
            seen += 1
    if proof_broken:
        emit_violation(ctx, "proof", proof_broken, dict(failing_input=None, broken=proof_broken.split("\n")[0]))
    for b in bad:
        emit_violation(ctx, "audit", b, dict(failing_input=None, broken=b))


def main(argv):
    import argparse
    ap = argparse.ArgumentParser()
    ap.add_argument("prop")
    ap.add_argument("--tier", default=os.environ.get("VERIF_TIER", "quick"))
    ap.add_argument("--replay")
    a = ap.parse_args(argv)
    seed = int(os.environ.get("VERIF_SEED", "1"))
    if a.replay:
        from . import replay
        return replay.replay(a.prop, a.replay)
    return check_property(a.prop.upper(), a.tier, seed)
