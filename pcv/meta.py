"""Per-property metadata for MANIFEST.json (python3 -m pcv.meta rewrites MANIFEST.json).
A property is claimed when pcv/props/<id>.py and lean/PcProps/<ID>.lean exist."""
import json
import os
import subprocess
import sys

ROOT = os.path.dirname(os.path.dirname(os.path.abspath(__file__)))

COMMON_NOTE = ("Trusted base: Lean 4.33.0 kernel (+ leanchecker in the thorough tier), axioms propext/Classical.choice/"
               "Quot.sound only (audited with #print axioms on every run; no sorry/admit/native_decide/bv_decide), "
               "Mathlib v4.33 definitions as vocabulary, the hand-written L2 model (tied to /repo by the translator-generated "
               "PcGen files and by the sampled correspondence harness<->pcdrv, which is differential testing), the C++ compiler, "
               "OpenMP runtime and libm.")

META = {
 "C01": dict(ref="6.1", technique="Lean 4 proof (route-independent dispatcher theorem, proved sieve/window oracles) + correspondence",
   text="End-to-end theorems over a world in which every object is the model of the real constructor (C01Closed3/4): pi(x) through the dispatcher of api.cpp for every int128 x, pi_gourdon_64/128 and pi_deleglise_rivat_64/128 for every accepted x, with every term computed by its real-control-flow model, phi over bit-level PhiCache objects, P2/B over the modelled primesieve iterator and sieving core; decimal rendering round-trips; the oracles used as judge (trial division, sieve, window count) are proved equal to Nat.primeCounting. The tie to the code is the source mirror (about 430 functions), generated table obligations and the correspondence streams over all entry points.",
   note="Remaining hypotheses of the closed theorems, and nothing else: named float envelopes (GourdonEnv, DrEnv, h53, FloatOk - a theorem below 2^50), 'the OpenMP runtime produces SOME schedule / accepted history' (all quantified), the literature fact pi(n) <= pix_upper(n), model size parameters (table reach, sieving primes < 2^32). A recorded dispenser history that is not a run of the dispenser model yields badRun. Accumulator overflow: C16."),
 "C02": dict(ref="6.2", technique="Lean 4 proof (Legendre, Meissel, Lehmer, LMO, Deleglise-Rivat and Gourdon identities for all x) + correspondence",
   text="Every algorithm evaluates an identity that is proved in Lean for all x and all admissible parameters (legendre, meissel, lehmer, pi_lmo, pi_dr, GParams.pi_gourdon); the REAL control flow of pi_legendre, pi_meissel, pi_lehmer, P3, pi_lmo1..4 (incl. the segmented sieve engine for every segment size and the Fenwick tree) is modelled and proved = pi(x) for all x; each remaining implementation is tied to the terms of its identity by exhaustive small ranges and structured samples against the proved sieve oracle.",
   note="pi_lmo5 / pi_lmo_parallel / pi_deleglise_rivat / pi_gourdon are proved over the world (C02ClosedLmo, C02ClosedAll, C01Closed3/4) for every x of their domain incl. the degenerate Gourdon arguments 2 <= x < 16; remaining hypotheses as listed under C01. int64 overflow freedom of accumulators: C16Safety*."),
 "C03": dict(ref="6.3", technique="Lean 4 proof (dispenser totality over all event lists, reductions under permutation) + trace acceptance",
   text="For every event list (any worker count, order, clock trace) accepted by the L2 step relation the chunks partition the range and the accumulated sum is the sum of an additive per-chunk function; reductions are permutation invariant; an atomic counter hands out each index once. Real balancer objects are driven by simulated workers and every recorded history must be accepted.",
   note="Proved for every accepted history / schedule: P2, B, S1, Phi0, S2_easy, S2_hard, D, AC regions; C03Closed: two executions of the closed world that share nothing (threads, print, runs, clock traces) return equal counts. Mutual exclusion of omp locks, OpenMP reductions/barriers and std::atomic are trusted runtime semantics (each region is assumed to produce SOME accepted history)."),
 "C04": dict(ref="6.4", technique="Lean 4 proof (clamps for every float outcome, parameter-independent identities) + correspondence",
   text="The clamps yield x^(1/3) < y <= z < x^(1/2) for EVERY value of the two float products (x >= 64); the leaf decomposition and the Gourdon/DR identities are proved for every admissible (y, z, k), so a returned count cannot depend on alpha. Counts under alpha grids are compared with the oracle and the derived parameters with the Lean clamps fed with the implementation's alpha bit patterns.",
   note="C04Closed: pi_gourdon / pi_deleglise_rivat / pi under any two admissible tunings return the same count (outcomes: pi(x), or the range error exactly when x exceeds get_max_x of that tuning); alpha (libm log) enters as a bit pattern; float envelopes for casts are named hypotheses evaluated on every sample."),
 "C05": dict(ref="6.5", technique="Lean 4 proof (window oracle = pi(b) - pi(a)) + correspondence",
   text="windowPrimes is proved to equal pi(b) - pi(a); increments of the implementation over windows up to 1e16 (2^63 in thorough) are compared with it.",
   note="C05Closed: pi_increment_counts_primes as a corollary of the closed end-to-end theorem (also across the int64 boundary); a shift of pi that is constant over every explored window is invisible to the sampled half of this check (see C01 / C17)."),
 "C06": dict(ref="6.6", technique="Lean 4 proof (walk from an arbitrary approximation reaches the n-th prime) + correspondence",
   text="nth_prime's search is proved to return the n-th prime for every approximation of R^-1 and both walk directions, over the REAL iterator model of the bundled primesieve (nth_prime_cpp_correct: every 1 <= n <= max_n, every approximation in [0, 2^63), every hint and float outcome), incl. the C wrapper (-1 exactly on domain errors) and the CLI narrowing; table entries are kernel-checked obligations generated from the source.",
   note="nth_prime_cpp_world (C06NthWorld): the pi hypothesis is discharged by the dispatcher recursion; remaining: RiemannR_inverse returns a value in [0, 2^63) (float), the literature constant p(max_n) < 2^63, the world / OpenMP-run hypotheses of C01."),
 "C07": dict(ref="6.7", technique="Lean 4 proof (guards, tiny tables by periodicity, recursion for any cache) + correspondence",
   text="phi's guards, the PhiTiny formula (periodicity), the recursive algorithm and the REAL PhiCache (constructor geometry, init_cache bit sieve with prefix counts, phi_cache lookup, the c = larger_c side effect, per-thread caches, phi_vector's copy) are modelled bit for bit and proved: phi_cpp_correct — phi(x, a) = the Legendre sum for all x, a, every float estimate and every thread distribution; the uint32 counts never truncate; tables are generated from the binary and kernel-checked.",
   note="pix_upper bound (two guards of phi_OpenMP) is a named hypothesis; pi_noprint = pi (C01) and the prime vector / PiTable (C17) are parameters."),
 "C08": dict(ref="6.8", technique="Lean 4 proof (lmo_general, dr_split, gourdon_decomp for all parameters) + correspondence against defining sums",
   text="S1 + S2 = phi(x, pi(y)) and A - B + C + D + Phi0 + Sigma = pi(x) are proved for all x and every admissible (y, z, k|c) (PcProofs/Spec). The REAL control flow of P2, B, P3, S1, Phi0, Sigma, S2_trivial, S2_easy (both division variants), S2_hard and D (thread functions for every work item, chunk chains, OpenMP regions for every balancer history) is modelled and proved equal to the Spec definitions; A and C2 kernels of AC are proved per (segment, b). Every term of the code is also compared with an executable evaluation of its defining sum on exhaustive small scopes and boundary-heavy samples.",
   note="AC: C1 recursion, the C2/C1 -> Spec.C bridge and the per-segment level pruning are tied by correspondence (whole AC_OpenMP not yet proved). Table parameters (primes, PiTable, FactorTable, Sieve contract) are hypotheses discharged by C17's constructor models + streams; accumulators are exact integers (overflow: C16). Source-mirror obligations (C08Src, C08SrcLoops, C08P2) pin the text of every modelled function, incl. the AVX512/SVE twin files."),
 "C09": dict(ref="6.9", technique="Lean 4 proof (invariants of the three dispenser state machines over all histories) + trace acceptance",
   text="partition / alignment / progress / stop / sum-once proved for every history accepted by the L2 relations (float decisions are nondeterministic choices); real objects driven with simulated workers and virtual clock must only produce accepted histories.",
   note="overflow freedom up to 2^62 only under an explicit bound hypothesis."),
 "C10": dict(ref="6.10", technique="Lean 4 proof over region schemas + translator (clang AST / source) — partial",
   text="partial: data-race freedom is proved for happens-before schemas; each OpenMP region of the source is matched to a schema by a generated, kernel-checked obligation.",
   note="no C++ memory model in Lean; accesses through aliases/callees outside the extractor are not covered."),
 "C11": dict(ref="6.11", technique="Lean 4 proof (one L1 for both widths) + correspondence on both instantiations",
   text="L1 is over unbounded integers, so both widths refine the same definition; roots proved width independent; every term is run through the 64- and 128-bit instantiation on the same parameters and compared with each other and the defining sums.",
   note="branches needing quotients >= 2^64 are not executable here."),
 "C12": dict(ref="6.12", technique="Lean 4 proof (roots exact for every estimate; clamps) + correspondence",
   text="isqrt/iroot/ct_sqrt proved exact floors for EVERY floating point estimate and every width, with no intermediate leaving its type; parameter clamps proved for all float outcomes; real header functions compared at k^n-1,k^n,k^n+1, rounding cliffs and random points.",
   note="float envelopes for (int64_t)(x13*alpha) are named hypotheses evaluated on every sample; maxx_default above 2^93 is validated, not proved (maxx_default_partial). The tuning setters are defined for every double (set_alpha_total; finding F6 repaired)."),
 "C13": dict(ref="6.13", technique="Lean 4 proof (checked evaluator sound w.r.t. exact AST evaluation) + grammar-based correspondence",
   text="toMaxint s = ok v iff s is a sentence of the DOCUMENTED grammar (operator table with precedences and associativities, unary operators, parentheses, literals) whose exact value and every intermediate are representable, and then v is that value (documented_value; calcTree_is_documented: the shift/reduce loop builds exactly the documented tree for every byte string; grammar_unambiguous); digit pre-check, division by zero and trailing garbage proved rejected; the 64-bit command-line options hand over exactly the value of the expression or reject it (cli64_exact, cli64_rejects_outside).",
   note="the reading of calculator.hpp's header comment as the inductive grammar Doc (112 lines, PcProofs/CalcGrammarSpec.lean) is the part to audit; the table is tied to the C++ switch by a generated obligation; the repaired arithmetic is stricter than InRange on two corner shapes (0-1<<1, MIN % -1: rejected); isspace/locale trusted. Findings F2, F7, F8 repaired in /repo."),
 "C14": dict(ref="6.14", technique="Lean 4 proof (buffer contract of primecount_pi_str, wrapper equations) + generated try/catch obligation + ASan canary correspondence",
   text="cPiStr_bounds/error/len/terminated and cWrap_eq are proved for all (x?, res?, len); the translator regenerates the list of extern C functions and the kernel checks that each body is try/catch(std::exception) and that every thrown type derives from it.",
   note="len <= 2^31; non-std exceptions absent by generated obligation; stack exhaustion outside."),
 "C15": dict(ref="6.15", technique="Lean 4 proof (bit-count paths equal) + correspondence across dispatch settings and build variants",
   text="the AVX512 / POPCNT / portable counting paths are proved to compute the same count; the same op streams run under forced CPU-dispatch settings and build variants and must be identical.",
   note="ARM SVE not buildable here; compiler trusted."),
 "C16": dict(ref="6.16", technique="Lean 4 proof (safety half of the L2 models) + sanitizer correspondence — partial",
   text="partial: for the modelled functions no intermediate leaves its type / index range (safety theorems: roots, calculator, C buffer, tuning setters, P2 closed form, P2/B/Sigma/S2_trivial/S2_easy accumulators over width-checked mirrors, every table read of every loop model in bounds); the union of the op streams runs on an ASan+UBSan(+float-cast-overflow)+assert build.",
   note="unproved accumulators: A/C kernels, S1/Phi0, S2_hard/D, Sigma int64 for x > 8.38e17, the 64-bit product phi_xpq*(l-lmin) of the 128-bit S2_easy for y > 7.3e10 (needs prime-gap bounds); unmodelled code is covered by the sanitizer run only (validation); LoadBalancerS2 overflows under a constant clock on ranges >= 2^56 (outside the quantifier, recorded)."),
 "C17": dict(ref="6.17", technique="Lean 4 proof (table obligations by decide, lookup and sieve invariants) + bit-exact correspondence",
   text="tables dumped from the built library are kernel-checked against their defining formulas; lookup/count theorems lift them to pi(n) and exact unsieved counts; real objects are compared bit for bit with the L2 model.",
   note="prime generator = abstract prime sequence (C18). Large multi-threaded tables are compared by hash with the mirror model and a differing entry is judged against the documented encoding."),
 "C18": dict(ref="6.18", technique="Lean 4 proof (iterator state machine refines the abstract prime cursor for every history; segmented wheel sieve, pre-sieve, bucket sieve and prime extraction proved to yield exactly the primes of [start, stop]) + generated table obligations + bit-exact segment-level correspondence — partial",
   text="partial: (a) the iterator layer (iterator.cpp, IteratorHelper.cpp, the table path of PrimeGenerator, nthPrime, ParallelSieve tiling, store_primes) is an L2 state machine proved to refine the abstract cursor (k-th next_prime = k-th prime >= start, prev_prime likewise then 0) for every stop hint, every float outcome and every batching, given the generator contract; (b) the sieving core (Erat, EratSmall/Medium/Big, PreSieve, SievingPrimes, bit extraction, counting) is modelled bit-exactly and proved: segment_sieve_correct, generator_contract, count_contract for every start, every stop < 2^64 and every sieve size; the wheel / pre-sieve / small-primes tables are regenerated from the source and kernel-checked; every segment's raw sieve array is compared bit for bit with the real classes.",
   note="partial because: FloatOk (maxEratMedium < 2^25, a float product) is a named hypothesis for stop >= 2^50; SIMD variants (AVX512/NEON/SVE PrimeGenerator, PreSieve), MemoryPool, ctz/popcnt are tied by correspondence only; above 1e14 the executable oracle of the iterator streams is deterministic Miller-Rabin (not proved). Closed: history_correct over the real core (C18ClosedHist), store_primes / generate_primes, nth_prime, the parallel count for every thread count up to 27709467 incl. stop = 2^64-1 (C18ClosedTop; beyond that bound ParallelSieve's unchecked align(start)+1 wraps - unreachable through the public API, recorded)."),
 "C19": dict(ref="6.19", technique="Lean 4 proof (series monotone, saturation, termination) + enclosure correspondence — partial",
   text="partial: integer/rational logic of Li/R and inverses proved; accuracy vs true functions depends on libm/x87.",
   note="real analysis and long double not formalised."),
 "C20": dict(ref="6.20", technique="Lean 4 proof (API state machine: clamps, resets, state-independence) + generated globals obligation + history correspondence",
   text="threads clamp, alpha reset and failed-call state preservation proved for all histories; the set of mutable globals and their writers is regenerated from the source and kernel-checked against the modelled state; seeded call histories run in one process against fresh-process values.",
   note="AlgConfigIndependent is now a theorem (C20Closed.alg_config_independent_closed) over the closed models; pi('x') for x between the get_max_x of two tunings legitimately depends on the tuning state (range error) — the theorems are stated on the accepted domain."),
}


def claimed(pid):
    return (os.path.exists(os.path.join(ROOT, "pcv", "props", pid.lower() + ".py"))
            and os.path.exists(os.path.join(ROOT, "lean", "PcProps", pid + ".lean")))


def build():
    repo_commits = subprocess.run(["git", "-C", "/repo", "log", "--format=%h %s"], capture_output=True, text=True).stdout.splitlines()
    hooks = [c.split()[0] for c in repo_commits if "verif hook" in c]
    m = {
        "version": 1,
        "setup_cmd": "./setup.sh",
        "hooks": {
            "guard": "PRIMECOUNT_VERIF",
            "enable": "cmake -DCMAKE_CXX_FLAGS='-Wno-error -DPRIMECOUNT_VERIF' (done by pcv/core.py ensure_build into /verif/.cache/<treehash>/<variant>)",
            "baseline_off_cmd": "./baseline_off.sh",
            "source_commits": hooks,
            "add_only": True,
        },
        "engines": [{"name": "pcverif", "path": "lean/", "serves_properties": [p for p in sorted(META) if claimed(p)],
                     "kind_free_text": "Lean 4 + Mathlib library (PcModel/PcProofs/PcProps/PcGen), line-protocol driver pcdrv, C++ harness, Python runner ./check"}],
        "checks": [],
        "not_applicable": [],
        "notes": "All checks: ./check <id> --tier quick|thorough (VERIF_SEED, VERIF_TIER honoured). See DESIGN.md.",
    }
    for pid in sorted(META):
        md = META[pid]
        if claimed(pid):
            m["checks"].append({
                "property_id": pid,
                "quick_cmd": "./check %s --tier quick" % pid,
                "thorough_cmd": "./check %s --tier thorough" % pid,
                "evidence_file": "evidence/%s.json" % pid,
                "replay_cmd_template": "./check %s --replay {path}" % pid,
                "engine": "pcverif",
                "level_claimed": {"category": "proof", "text": md["text"], "design_ref": "DESIGN.md " + md["ref"]},
                "level_note": md["note"] + " " + COMMON_NOTE,
                "technique": md["technique"],
            })
        else:
            m["not_applicable"].append({"property_id": pid, "reason": "check not integrated yet (work in progress, DESIGN.md section 10); planned: " + md["technique"]})
    return m


if __name__ == "__main__":
    m = build()
    json.dump(m, open(os.path.join(ROOT, "MANIFEST.json"), "w"), indent=1)
    print("claimed:", [c["property_id"] for c in m["checks"]])
