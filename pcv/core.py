"""Common machinery of ./check (see DESIGN.md section 3.1).

Everything a check needs: hashing /repo's working tree, building it (hooks on) into
/verif/.cache/<hash>/<variant>, compiling the correspondence harness against that build,
regenerating PcGen, building/auditing the Lean library, running op streams through the
harness and through the Lean driver `pcdrv`, writing evidence and replay files.
"""
import fcntl
import hashlib
import json
import os
import re
import shutil
import subprocess
import sys
import time

ROOT = os.path.dirname(os.path.dirname(os.path.abspath(__file__)))
REPO = os.environ.get("PCV_REPO", "/repo")
CACHE = os.path.join(ROOT, ".cache")
LEAN = os.path.join(ROOT, "lean")
EVID = os.path.join(ROOT, "evidence")
REPLAY = os.path.join(EVID, "replay")
GUARD = "PRIMECOUNT_VERIF"
ALLOWED_AXIOMS = {"propext", "Classical.choice", "Quot.sound"}
NCPU = os.cpu_count() or 4

SRC_DIRS = ["src", "include", "lib", "cmake", "CMakeLists.txt", "test"]


def log(*a):
    print(*a, file=sys.stderr, flush=True)


# --------------------------------------------------------------------------- hashing

def tree_hash():
    h = hashlib.sha256()
    for d in SRC_DIRS:
        p = os.path.join(REPO, d)
        if os.path.isfile(p):
            h.update(d.encode())
            h.update(open(p, "rb").read())
            continue
        for base, dirs, files in os.walk(p):
            dirs.sort()
            for f in sorted(files):
                fp = os.path.join(base, f)
                h.update(os.path.relpath(fp, REPO).encode())
                try:
                    h.update(open(fp, "rb").read())
                except OSError:
                    pass
    return h.hexdigest()[:16]


class Lock:
    def __init__(self, name):
        os.makedirs(CACHE, exist_ok=True)
        self.path = os.path.join(CACHE, name + ".lock")

    def __enter__(self):
        self.f = open(self.path, "w")
        fcntl.flock(self.f, fcntl.LOCK_EX)
        return self

    def __exit__(self, *a):
        fcntl.flock(self.f, fcntl.LOCK_UN)
        self.f.close()


def run(cmd, cwd=None, timeout=None, env=None, input=None):
    e = dict(os.environ)
    if env:
        e.update(env)
    t0 = time.time()
    try:
        p = subprocess.run(cmd, cwd=cwd, env=e, input=input, capture_output=True,
                           timeout=timeout, text=isinstance(input, str) or input is None)
        return p.returncode, p.stdout, p.stderr, time.time() - t0
    except subprocess.TimeoutExpired as ex:
        out = ex.stdout or ""
        err = ex.stderr or ""
        if isinstance(out, bytes):
            out = out.decode(errors="replace")
        if isinstance(err, bytes):
            err = err.decode(errors="replace")
        return 124, out, err + "\nTIMEOUT", time.time() - t0


# --------------------------------------------------------------------------- repo builds

VARIANTS = {
    # the pinned configuration + the hook guard
    "rel": dict(cxx="g++", flags="-Wno-error -D" + GUARD, cmake=[], btype="RelWithDebInfo"),
    # assertions + ASan + UBSan (C14, C16)
    "san": dict(cxx="g++",
                flags="-Wno-error -D" + GUARD + " -DENABLE_ASSERT -O1 -g -fsanitize=address,undefined,float-cast-overflow "
                      "-fno-sanitize-recover=all -fno-omit-frame-pointer",
                cmake=[], btype="None"),
    # C15 build variants
    "nomultiarch": dict(cxx="g++", flags="-Wno-error -D" + GUARD, cmake=["-DWITH_MULTIARCH=OFF"], btype="RelWithDebInfo"),
    "native": dict(cxx="g++", flags="-Wno-error -march=native -D" + GUARD, cmake=[], btype="RelWithDebInfo"),
    "nolibdivide": dict(cxx="g++", flags="-Wno-error -D" + GUARD, cmake=["-DWITH_LIBDIVIDE=OFF"], btype="RelWithDebInfo"),
    "div32": dict(cxx="g++", flags="-Wno-error -D" + GUARD, cmake=["-DWITH_DIV32=ON"], btype="RelWithDebInfo"),
    "noopenmp": dict(cxx="g++", flags="-Wno-error -D" + GUARD, cmake=["-DWITH_OPENMP=OFF"], btype="RelWithDebInfo"),
    "noint128": dict(cxx="g++", flags="-Wno-error -DDISABLE_INT128 -D" + GUARD, cmake=[], btype="RelWithDebInfo"),
    "O0": dict(cxx="g++", flags="-Wno-error -O0 -D" + GUARD, cmake=[], btype="None"),
    "O3": dict(cxx="g++", flags="-Wno-error -O3 -DNDEBUG -D" + GUARD, cmake=[], btype="None"),
    "clang": dict(cxx="clang++-14", flags="-Wno-error -D" + GUARD, cmake=[], btype="RelWithDebInfo"),
    # guard OFF: the pinned tree as the baseline builds it (tests on)
    "baseline_off": dict(cxx="g++", flags="-Wno-error", cmake=["-DBUILD_TESTS=ON"], btype="RelWithDebInfo"),
}


def cache_dir():
    """Build cache of the CURRENT tree; the six most recently used trees are kept, older ones deleted."""
    h = tree_hash()
    d = os.path.join(CACHE, h)
    with Lock("gc"):
        os.makedirs(d, exist_ok=True)
        os.utime(d, None)
        trees = [os.path.join(CACHE, e) for e in os.listdir(CACHE)
                 if os.path.isdir(os.path.join(CACHE, e)) and re.fullmatch(r"[0-9a-f]{16}", e)]
        trees.sort(key=lambda p: os.path.getmtime(p), reverse=True)
        for p in trees[6:]:
            shutil.rmtree(p, ignore_errors=True)
    return d


class BuildError(Exception):
    pass


def ensure_build(variant="rel"):
    """Configure + build /repo's working tree for `variant`; returns the build dir."""
    v = VARIANTS[variant]
    d = os.path.join(cache_dir(), variant)
    # the stamp names the configuration, so that a changed flag set rebuilds the variant
    stamp = os.path.join(d, ".done-" + hashlib.sha256(repr(sorted(v.items())).encode()).hexdigest()[:10])
    with Lock("build-" + variant):
        if os.path.exists(stamp):
            return d
        shutil.rmtree(d, ignore_errors=True)
        os.makedirs(d)
        cfg = ["cmake", "-G", "Ninja", "-S", REPO, "-B", d,
               "-DCMAKE_BUILD_TYPE=" + v["btype"], "-DCMAKE_CXX_COMPILER=" + v["cxx"],
               "-DCMAKE_CXX_FLAGS=" + v["flags"]]
        if not any(c.startswith("-DBUILD_TESTS") for c in v["cmake"]):
            cfg.append("-DBUILD_TESTS=OFF")
        cfg += v["cmake"]
        rc, out, err, _ = run(cfg, timeout=600)
        open(os.path.join(d, "cfg.log"), "w").write(out + err)
        if rc != 0:
            raise BuildError("cmake configure failed for %s:\n%s" % (variant, (out + err)[-3000:]))
        rc, out, err, _ = run(["cmake", "--build", d, "-j", str(NCPU)], timeout=1800)
        open(os.path.join(d, "build.log"), "w").write(out + err)
        if rc != 0:
            raise BuildError("build failed for %s:\n%s" % (variant, (out + err)[-3000:]))
        open(stamp, "w").write("ok")
    return d


def build_flags(bdir):
    """DEFINES / FLAGS that cmake used for libprimecount (so the harness sees the same config)."""
    txt = open(os.path.join(bdir, "build.ninja")).read()
    m = re.search(r"build CMakeFiles/libprimecount[^\n]*src/api\.cpp\.o:.*?\n((?:  [^\n]*\n)+)", txt)
    defs, flags = "", ""
    if m:
        for line in m.group(1).splitlines():
            line = line.strip()
            if line.startswith("DEFINES ="):
                defs = line.split("=", 1)[1].strip()
            if line.startswith("FLAGS ="):
                flags = line.split("=", 1)[1].strip()
    return defs, flags


def ensure_harness(variant="rel"):
    bdir = ensure_build(variant)
    exe = os.path.join(bdir, "pcharness")
    hdir = os.path.join(ROOT, "harness")
    srcs = sorted(f for f in os.listdir(hdir) if f.endswith(".cpp"))
    hh = hashlib.sha256()
    for f in sorted(os.listdir(hdir)):
        hh.update(open(os.path.join(hdir, f), "rb").read())
    stamp = os.path.join(bdir, ".harness-" + hh.hexdigest()[:12])
    with Lock("harness-" + variant):
        if os.path.exists(stamp) and os.path.exists(exe):
            return exe
        defs, flags = build_flags(bdir)
        cxx = VARIANTS[variant]["cxx"]
        odir = os.path.join(bdir, "hobj")
        shutil.rmtree(odir, ignore_errors=True)
        os.makedirs(odir)
        base = [cxx, "-std=gnu++17"] + flags.split() + defs.split() + [
            "-I" + os.path.join(REPO, "include"), "-I" + os.path.join(REPO, "lib/primesieve/include"),
            "-I" + os.path.join(REPO, "src"), "-I" + hdir]
        procs = []
        for s in srcs:
            o = os.path.join(odir, s[:-4] + ".o")
            procs.append((s, subprocess.Popen(base + ["-c", os.path.join(hdir, s), "-o", o],
                                              stdout=subprocess.PIPE, stderr=subprocess.STDOUT, text=True)))
        errs = []
        for s, p in procs:
            out, _ = p.communicate()
            if p.returncode != 0:
                errs.append("%s:\n%s" % (s, out[-3000:]))
        if errs:
            raise BuildError("harness compile failed (%s):\n%s" % (variant, "\n".join(errs)))
        link = [cxx] + [f for f in flags.split() if f.startswith("-fsanitize") or f == "-fopenmp"] + \
               [os.path.join(odir, s[:-4] + ".o") for s in srcs] + \
               [os.path.join(bdir, "libprimecount.a"), os.path.join(bdir, "lib/primesieve/libprimesieve.a"),
                "-o", exe]
        if "-fopenmp" not in link and "WITH_OPENMP=OFF" not in " ".join(VARIANTS[variant]["cmake"]):
            link.insert(1, "-fopenmp")
        rc, out, err, _ = run(link, timeout=600)
        if rc != 0:
            raise BuildError("harness link failed (%s):\n%s" % (variant, (out + err)[-3000:]))
        for f in os.listdir(bdir):
            if f.startswith(".harness-"):
                os.remove(os.path.join(bdir, f))
        open(stamp, "w").write("ok")
    return exe


# --------------------------------------------------------------------------- Lean

def lake_build(targets, timeout=3600):
    with Lock("lake"):
        rc, out, err, secs = run(["lake", "build"] + targets, cwd=LEAN, timeout=timeout)
    return rc, out + err, secs


def pcdrv_path():
    return os.path.join(LEAN, ".lake", "build", "bin", "pcdrv")


FORBIDDEN = re.compile(r"\b(sorry|admit|native_decide|bv_decide|implemented_by|unsafe)\b|^axiom\s|maxHeartbeats\s+0\b", re.M)


def strip_comments(src):
    # remove /- ... -/ (nested) and -- ... comments
    out = []
    i, depth, n = 0, 0, len(src)
    while i < n:
        if src.startswith("/-", i):
            depth += 1
            i += 2
        elif depth and src.startswith("-/", i):
            depth -= 1
            i += 2
        elif depth:
            i += 1
        elif src.startswith("--", i):
            while i < n and src[i] != "\n":
                i += 1
        elif src[i] == '"':
            j = i + 1
            while j < n and src[j] != '"':
                j += 2 if src[j] == "\\" else 1
            out.append('""')
            i = j + 1
        else:
            out.append(src[i])
            i += 1
    return "".join(out)


def source_audit():
    """grep the whole Lean tree for forbidden constructs outside comments/strings."""
    hits = []
    for base, dirs, files in os.walk(LEAN):
        if ".lake" in base:
            continue
        for f in files:
            if f.endswith(".lean"):
                p = os.path.join(base, f)
                code = strip_comments(open(p).read())
                for m in FORBIDDEN.finditer(code):
                    hits.append("%s: %s" % (os.path.relpath(p, LEAN), m.group(0).strip()))
    return hits


def module_closure(mod):
    """Local (non-Mathlib) modules imported transitively by `mod`."""
    seen, todo = set(), [mod]
    while todo:
        m = todo.pop()
        if m in seen:
            continue
        p = os.path.join(LEAN, m.replace(".", "/") + ".lean")
        if not os.path.exists(p):
            continue
        seen.add(m)
        for line in open(p):
            mm = re.match(r"\s*import\s+(\S+)", line)
            if mm:
                todo.append(mm.group(1))
    return seen


def axiom_audit(module):
    """Elaborate PcProps/<module>.lean, collect `#print axioms` lines.
    Returns (theorems_declared, {thm: [axioms]}, raw_output, rc)."""
    path = os.path.join(LEAN, module.replace(".", "/") + ".lean")
    src = strip_comments(open(path).read())
    declared = re.findall(r"^\s*(?:private\s+|protected\s+)?theorem\s+([^\s:({\[]+)", src, re.M)
    rc, out, err, _ = run(["lake", "env", "lean", path], cwd=LEAN, timeout=1800)
    txt = out + err
    ax = {}
    for m in re.finditer(r"'([^']+)' depends on axioms: \[([^\]]*)\]", txt):
        ax[m.group(1)] = [a.strip() for a in m.group(2).replace("\n", " ").split(",") if a.strip()]
    for m in re.finditer(r"'([^']+)' does not depend on any axioms", txt):
        ax[m.group(1)] = []
    return declared, ax, txt, rc


# --------------------------------------------------------------------------- streams

def run_harness(exe, ops_text, timeout=600, env=None):
    # per-op alarm of the harness (HANG): 60 s unless the stream asks for more (the harness' own default of 20 s turned
    # slow-but-finite ops into alarms when the machine was loaded); sanitizer builds are ~5x slower
    env = dict(env or {})
    env.setdefault("PCV_OP_TIMEOUT", os.environ.get("PCV_OP_TIMEOUT", "180" if "/san/" in exe else "60"))
    rc, out, err, secs = run([exe], input=ops_text, timeout=timeout, env=env)
    return rc, out.splitlines(), err, secs


def run_model(ops_text, timeout=1200, jobs=None):
    """Run pcdrv on the op lines. Ops are stateless, so large streams are cut into contiguous
    blocks that run in parallel pcdrv processes; outputs are concatenated in order."""
    lines = ops_text.splitlines()
    jobs = jobs or min(12, NCPU)
    if len(lines) < 64 or jobs <= 1:
        rc, out, err, secs = run([pcdrv_path()], input=ops_text, timeout=timeout)
        return rc, out.splitlines(), err, secs
    t0 = time.time()
    nblk = min(len(lines) // 16, jobs * 6)
    # interleaved assignment (line i -> block i % nblk) balances cost when ops are sorted by size
    blocks = [lines[i::nblk] for i in range(nblk)]
    import concurrent.futures as cf
    def work(b):
        return run([pcdrv_path()], input="\n".join(b) + "\n", timeout=timeout)
    with cf.ThreadPoolExecutor(max_workers=jobs) as ex:
        results = list(ex.map(work, blocks))
    out = [None] * len(lines)
    rc_all, err_all = 0, ""
    for bi, (rc, o, e, _) in enumerate(results):
        ol = o.splitlines()
        if rc != 0 or len(ol) != len(blocks[bi]):
            rc_all = rc or 1
            err_all += e[-500:]
        for j, v in enumerate(ol[:len(blocks[bi])]):
            out[bi + j * nblk] = v
    if rc_all != 0:
        # return the longest fully answered prefix so that the caller can locate the failing op
        k = 0
        while k < len(out) and out[k] is not None:
            k += 1
        return rc_all, out[:k], err_all, time.time() - t0
    return 0, out, err_all, time.time() - t0


# --------------------------------------------------------------------------- findings / evidence

def known_findings():
    """Lines 'finding: property=<id> key=<key> ...' suppress; 'fixed: ...' suppress nothing."""
    res = []
    p = os.path.join(ROOT, "KNOWN_FINDINGS.txt")
    if os.path.exists(p):
        for line in open(p):
            line = line.strip()
            m = re.match(r"finding:\s+property=(\S+)\s+key=(\S+)\s*(.*)", line)
            if m:
                res.append((m.group(1), m.group(2), m.group(3)))
    return res


def write_json(path, obj):
    os.makedirs(os.path.dirname(path), exist_ok=True)
    tmp = path + ".tmp"
    with open(tmp, "w") as f:
        json.dump(obj, f, indent=1, default=str)
    os.replace(tmp, path)
