"""Translator driver: regenerates lean/PcGen/*.lean from /repo's working tree (DESIGN.md 3.1 step 2).
Each extractor returns a dict describing what it read; output files are only rewritten when their
content changes (so lake skips re-elaboration)."""
import importlib
import os
from . import core

EXTRACTORS = []


def write_if_changed(path, text):
    os.makedirs(os.path.dirname(path), exist_ok=True)
    if os.path.exists(path) and open(path).read() == text:
        return False
    open(path, "w").write(text)
    return True


def run_all():
    info = {}
    tdir = os.path.join(core.ROOT, "translator")
    import sys
    if tdir not in sys.path:
        sys.path.insert(0, tdir)
    with core.Lock("translate"):
        for name in sorted(f[:-3] for f in os.listdir(tdir) if f.startswith("extract_") and f.endswith(".py")):
            mod = importlib.import_module(name)
            try:
                info[name] = mod.extract(core.REPO, os.path.join(core.LEAN, "PcGen"), write_if_changed)
            except Exception as e:  # an extractor never guesses: it reports and keeps the last file
                info[name] = {"extractor_shape_changed": repr(e)}
    return info
