"""Work package "params": correspondence streams for the magnitude half of C12 (derived parameters in range up to
10^31), the fast_div64 kernels of C11 and the real-run parameter derivation of C04.

Harness ops: harness/ops_params.cpp.  Model ops: lean/PcModel/Drv/ParamsL2.lean.
Nothing here is an oracle: the Python side only chooses inputs and compares the two sides field by field; the
range predicates are evaluated by the Lean driver on the definitions the theorems are about (`env=`, `range=`)."""
import math
import struct

from .runner import Stream
from . import gen

X_MAX = 4 * 10 ** 31
I64_MAX = 2 ** 63 - 1


# ----------------------------------------------------------------------------------------------- input choice

def _bits(d):
    return struct.unpack("<Q", struct.pack("<d", d))[0]


def default_alpha_y(x):
    """Python replica of get_alpha_gourdon's default alpha_y (ONLY used to aim inputs at the maxX boundary)."""
    x16 = float(gen.iroot(6, x))
    logx = math.log(float(x))
    if float(x) <= 1e11:
        ayz = 0.078173 * logx + 1
    else:
        ayz = 0.00526934 * logx ** 3 + -0.495545 * logx ** 2 + 16.5791 * logx + -183.836
    az = min(max(ayz / 5, 1.0), 2.0)
    ay = ayz / az
    ay = min(max(ay, 1.0), x16)
    return int(ay * 1000) / 1000.0


def max_x_of(alpha):
    return int(math.pow(2 ** 62 * alpha, 1.5))


def default_boundary():
    """x with x ~ get_max_x(default alpha_y(x)): the largest x accepted under default tuning"""
    lo, hi = 10 ** 31, 10 ** 33
    for _ in range(200):
        mid = (lo + hi) // 2
        if mid <= max_x_of(default_alpha_y(mid)):
            lo = mid
        else:
            hi = mid
    return lo


def transitions(rng, lo, hi, n):
    """k^e - 1, k^e, k^e + 1 for e = 2, 3, 4, 6 with k log-uniform, plus powers of two and ten"""
    xs = set()
    while len(xs) < n:
        e = rng.choice((2, 3, 4, 6))
        klo, khi = max(2, gen.iroot(e, lo)), max(3, gen.iroot(e, hi))
        k = int(math.exp(rng.uniform(math.log(klo), math.log(khi))))
        if rng.random() < 0.3:
            k = rng.choice((2 ** rng.randint(1, max(1, khi.bit_length() - 1)), 10 ** rng.randint(0, max(0, len(str(khi)) - 1))))
        for d in (-1, 0, 1):
            v = k ** e + d
            if lo <= v <= hi:
                xs.add(v)
    return sorted(xs)


def log_uniform(rng, lo, hi, n):
    return [int(math.exp(rng.uniform(math.log(lo), math.log(hi)))) for _ in range(n)]


def alpha_grid(rng, x):
    """tuning override in thousandths over the whole grid incl. out-of-interval values; -1 = default"""
    x16m = max(1, gen.iroot(6, x)) * 1000
    r = rng.random()
    if r < 0.25:
        return -1
    if r < 0.55:
        return rng.choice((0, 1, 999, 1000, 1001, 1500, 2000, x16m - 1, x16m, x16m + 1, 2 * x16m, 10 * x16m))
    if r < 0.85:
        return rng.randint(0, 2 * x16m)
    if r < 0.95:
        return int(math.exp(rng.uniform(math.log(1000), math.log(max(1001, x16m)))))
    return rng.choice((10 ** 9, 10 ** 12, 9 * 10 ** 15, rng.randint(10 ** 7, 10 ** 15)))


def xs_for_params(rng, n, hi=X_MAX):
    xs = set([2, 3, 4, 5, 7, 8, 9, 15, 16, 26, 27, 63, 64, 65, 80, 81, I64_MAX - 1, I64_MAX, I64_MAX + 1, 2 ** 64 - 1, 2 ** 64,
              2 ** 64 + 1, 10 ** 31 - 1, 10 ** 31, 10 ** 31 + 1, 2 ** 93 - 1, 2 ** 93, 2 ** 93 + 1, 2 ** 93 - 2 ** 54,
              X_MAX, 10 ** 9, 10 ** 9 + 1, 10 ** 11, 10 ** 11 + 1])
    xs.update(log_uniform(rng, 2, hi, n))
    xs.update(transitions(rng, 2, hi, n // 2))
    xs.update(v for v in gen.structured_x(rng, 2, 2 ** 62, n // 4))
    return sorted(v for v in xs if 2 <= v <= hi)


def field_map(line):
    out = {}
    for tok in line.split():
        if "=" in tok:
            k, v = tok.split("=", 1)
            out[k] = v
    return out


# ----------------------------------------------------------------------------------------------- C12 streams

def gourdon_ops(rng, quick):
    n = 2500 if quick else 25000
    ops = []
    for x in xs_for_params(rng, n):
        reps = 2 if quick else 3
        for _ in range(reps):
            ay, az = alpha_grid(rng, x), alpha_grid(rng, x)
            t = rng.choice((1, 2, 7, 16, 64, 1000, 0, -3))
            ops.append("gparams 128 %d %d %d %d" % (x, ay, az, t))
            if x <= I64_MAX and rng.random() < 0.7:
                ops.append("gparams 64 %d %d %d %d" % (x, ay, az, t))
    # the maxX boundary: overrides (x around get_max_x(alpha_y)) and default tuning
    for _ in range(200 if quick else 3000):
        aym = rng.choice((1000, 1001, 1500, 2000, 5000, rng.randint(1000, 400000), rng.randint(1000, 3000)))
        mx = max_x_of(aym / 1000.0)
        for d in (-2, -1, 0, 1, 2, rng.randint(3, 10 ** 6), -rng.randint(3, 10 ** 6), mx // 10 ** 9, -(mx // 10 ** 9)):
            if 2 <= mx + d:
                ops.append("gparams 128 %d %d %d 16" % (mx + d, aym, alpha_grid(rng, mx)))
    b = default_boundary()
    for d in list(range(-3, 4)) + [10 ** 6 * k for k in (-5, -1, 1, 5)] + [b // 10 ** 4, -(b // 10 ** 4), b // 100, -(b // 100)]:
        ops.append("gparams 128 %d -1 -1 16" % (b + d))
    return ops


def gourdon_stream(ctx):
    ops = gourdon_ops(ctx.rng, ctx.quick)
    stats = dict(max_xy=0, max_xy_op="", rejected=0, accepted=0)

    def model_ops(ops_, impl):
        out = []
        for o, a in zip(ops_, impl):
            p, f = o.split(), field_map(a)
            if "ay" in f and "az" in f:
                out.append("gparams_chk %s %s %s %s %s" % (p[1], p[2], p[5], f["ay"], f["az"]))
            else:
                out.append("# no alpha in: " + a[:80])
        return out

    def judge(ops_, impl, mops, model):
        dis = []
        for i, (o, a, b) in enumerate(zip(ops_, impl, model)):
            if b.startswith("#"):
                dis.append(dict(index=i, op=o, impl=a, model=b))
                continue
            line, _, pred = b.partition(" P: ")
            pf = field_map(pred)
            if line != a:
                dis.append(dict(index=i, op=o, impl=a, model=line))
            elif pf.get("env") != "1" or pf.get("range") != "1":
                dis.append(dict(index=i, op=o, impl=a, model="float envelope / range predicate of the theorem fails: " + pred,
                                monitor=True))
            f = field_map(a)
            if "xy" in f and o.split()[1] == "128" and int(f["xy"]) > 2 ** 62 + 2 ** 33:
                dis.append(dict(index=i, op=o, impl=a, model="range_check_guarantee: x / y <= 2^62 + 2^33", monitor=True))
            if f.get("ok") == "0":
                stats["rejected"] += 1
            elif "xy" in f:
                stats["accepted"] += 1
                if int(f["xy"]) > stats["max_xy"]:
                    stats["max_xy"], stats["max_xy_op"] = int(f["xy"]), o
        ctx.res.notes.append("gourdon parameters: accepted=%d rejected(range)=%d; largest x/y observed = 2^62 + %d at '%s'" % (
            stats["accepted"], stats["rejected"], stats["max_xy"] - 2 ** 62, stats["max_xy_op"]))
        return dis

    def nontrivial(op, res):
        return op if "xy=" in res or "ok=0" in res else None

    def classify(op, res):
        f = field_map(res)
        return op.split()[1] + ("/rejected" if f.get("ok") == "0" else "/accepted")
    return Stream("params_gourdon_range", ops, oracle=False, model_ops=model_ops, judge=judge,
                  nontrivial=nontrivial, classify=classify, timeout=900)


def dr_stream(ctx):
    rng = ctx.rng
    ops = []
    for x in xs_for_params(rng, 2000 if ctx.quick else 20000):
        for _ in range(2):
            al = alpha_grid(rng, x)
            t = rng.choice((1, 2, 16, 1000, 0))
            ops.append("dparams 128 %d %d %d" % (x, al, t))
            if x <= I64_MAX:
                ops.append("dparams 64 %d %d %d" % (x, al, t))
                if rng.random() < 0.5:
                    ops.append("lparams %d %d" % (x, al))
    for _ in range(40 if ctx.quick else 1000):
        alm = rng.choice((1000, 1001, 2000, rng.randint(1000, 400000)))
        mx = max_x_of(alm / 1000.0)
        for d in (-1, 0, 1, rng.randint(2, 10 ** 6)):
            ops.append("dparams 128 %d %d 16" % (mx + d, alm))

    def model_ops(ops_, impl):
        out = []
        for o, a in zip(ops_, impl):
            p, f = o.split(), field_map(a)
            if "a" not in f:
                out.append("# no alpha in: " + a[:80])
            elif p[0] == "dparams":
                out.append("dparams_chk %s %s %s %s" % (p[1], p[2], p[4], f["a"]))
            else:
                out.append("lparams_chk %s %s" % (p[1], f["a"]))
        return out

    def judge(ops_, impl, mops, model):
        dis = []
        for i, (o, a, b) in enumerate(zip(ops_, impl, model)):
            line, _, pred = b.partition(" P: ")
            pf = field_map(pred)
            if line != a or b.startswith("#"):
                dis.append(dict(index=i, op=o, impl=a, model=line))
            elif o.startswith("dparams") and (pf.get("env") != "1" or pf.get("range") != "1"):
                dis.append(dict(index=i, op=o, impl=a, model="float envelope / range predicate of the theorem fails: " + pred,
                                monitor=True))
        return dis
    return Stream("params_dr_lmo_range", ops, oracle=False, model_ops=model_ops, judge=judge,
                  classify=lambda o, r: o.split()[0] + ("/rejected" if "ok=0" in r else ""), timeout=900)


def real_run_stream(ctx, n_g, n_d, name="params_real_run"):
    """the variables the REAL entry points print (forked run, killed after the dump) against the checked model"""
    rng = ctx.rng
    ops = []
    xs = xs_for_params(rng, n_g)
    rng.shuffle(xs)
    for x in [0, 1] + xs[:n_g]:
        ay, az = (alpha_grid(rng, max(x, 2)), alpha_grid(rng, max(x, 2)))
        ops.append("gparams 128 %d %d %d 1" % (max(x, 2), ay, az))
        ops.append("gvars 128 %d %d %d" % (x, ay, az))
        if x <= I64_MAX:
            ops.append("gparams 64 %d %d %d 1" % (max(x, 2), ay, az))
            ops.append("gvars 64 %d %d %d" % (x, ay, az))
    # Deleglise-Rivat / LMO print after pi(y): keep y small enough for a quick pi(y)
    xs = xs_for_params(rng, n_d)
    rng.shuffle(xs)
    for x in xs[:n_d]:
        x13 = max(1, gen.iroot(3, x))
        cap = max(1000, min(gen.iroot(6, x) * 2000, (10 ** 11 // x13) * 1000))
        al = rng.choice((-1, 1000, cap, rng.randint(0, cap), rng.randint(1000, cap)))
        if al == -1 and x > 10 ** 29:
            al = 1000
        ops.append("dparams 128 %d %d 1" % (x, al))
        ops.append("dvars 128 %d %d" % (x, al))
        if x <= I64_MAX:
            ops.append("dparams 64 %d %d 1" % (x, al))
            ops.append("dvars 64 %d %d" % (x, al))
            if x <= 10 ** 15:
                ops.append("lparams %d %d" % (x, al))
                ops.append("lvars %s %d %d" % (rng.choice(("par", "5")) if x < 10 ** 12 else "par", x, al))

    def model_ops(ops_, impl):
        out = []
        for i, (o, a) in enumerate(zip(ops_, impl)):
            p = o.split()
            if p[0] in ("gparams", "dparams", "lparams"):
                out.append("# " + o)
                continue
            f = field_map(impl[i - 1])
            if p[0] == "gvars":
                if int(p[2]) < 2:
                    out.append("gvars_chk %s %s 0 0" % (p[1], p[2]))
                elif "ay" in f:
                    out.append("gvars_chk %s %s %s %s" % (p[1], p[2], f["ay"], f["az"]))
                else:
                    out.append("# no alpha: " + impl[i - 1][:60])
            elif p[0] == "dvars":
                out.append("dvars_chk %s %s %s" % (p[1], p[2], f["a"]) if "a" in f else "# no alpha")
            else:
                out.append("lvars_chk %s %s" % (p[2], f["a"]) if "a" in f else "# no alpha")
        return out

    def judge(ops_, impl, mops, model):
        dis = []
        for i, (o, a, b) in enumerate(zip(ops_, impl, model)):
            if mops[i].startswith("# ") and o.split()[0] in ("gparams", "dparams", "lparams"):
                continue
            if a != b:
                dis.append(dict(index=i, op=o, impl=a, model=b))
        return dis

    def nontrivial(op, res):
        return op if op.split()[0] in ("gvars", "dvars", "lvars") and res not in ("NOPRINT",) else None
    return Stream(name, ops, oracle=False, model_ops=model_ops, judge=judge, nontrivial=nontrivial,
                  classify=lambda o, r: o.split()[0] + ("/ERR:pc" if r == "ERR:pc" else ""), timeout=1200)


SETTER_EXTREMES = (1.0, 0.999, 1e6, 9.99e14, 1e15, 1.0000000000000001e15, 9.2e15, 9.223372036854775e15, 9.2233720368547e15,
                   9.3e15, 1e16, 1e300, -1.0, 0.0, 2.5, 1234.5678, float("inf"), float("-inf"), float("nan"), -1e300,
                   9007199254740993.0, 5e-324, 1.7976931348623157e308)


def setter_ops(ctx):
    """set_alpha / set_alpha_y / set_alpha_z on EVERY kind of double the public API accepts (the cast in truncate3 was
    undefined for >= 9.2233720368547758e15, +inf and NaN before the repair recorded in KNOWN_FINDINGS.txt)"""
    rng = ctx.rng
    ops = []
    for d in SETTER_EXTREMES:
        for which in (0, 1, 2):
            ops.append("setalpha %d %d" % (_bits(d), which))
    for _ in range(100 if ctx.quick else 3000):
        ops.append("setalpha %d %d" % (_bits(math.exp(rng.uniform(-2, 60))), rng.randint(0, 2)))
    for _ in range(30 if ctx.quick else 1000):      # arbitrary bit patterns (NaN payloads, denormals, negative)
        ops.append("setalpha %d %d" % (rng.getrandbits(64), rng.randint(0, 2)))
    return ops


def alphas_stream(ctx):
    """the tuning factors themselves: real get_alpha_* against the model's binary64 computation (log, clamps, truncate3)"""
    rng = ctx.rng
    ops = []
    for x in [1, 2, 3] + xs_for_params(rng, 3000 if ctx.quick else 50000):
        ops.append("alphas %d %d %d %d" % (x, alpha_grid(rng, x), alpha_grid(rng, x), alpha_grid(rng, x)))
        if rng.random() < 0.3:
            ops.append("alphas %d -1 -1 -1" % x)
    for al in [1000, 1001, 1500, 194812, 10 ** 6] + [rng.randint(1000, 10 ** 6) for _ in range(100 if ctx.quick else 3000)]:
        ops.append("maxx_bits %d" % _bits(al / 1000.0))
    ops += setter_ops(ctx)
    return Stream("alpha_factors", ops, oracle=False, classify=lambda o, r: o.split()[0] + ("/UB" if r == "UB" else ""), timeout=600)


def maxx_default_stream(ctx):
    """`maxx_default`: every x <= 10^31 passes the range check under default tuning — the named envelope
    `110 <= default alpha_y(x)` for 2^93 - 2^54 < x <= 10^31 and `MaxXNear` are evaluated on the real doubles"""
    rng = ctx.rng
    xs = set([10 ** 27, 10 ** 31, 10 ** 31 - 1, 2 ** 93, 2 ** 93 - 2 ** 54, 2 ** 93 - 2 ** 54 + 1, 2 ** 93 + 1, 2 ** 92])
    xs.update(log_uniform(rng, 10 ** 27, 10 ** 31, 10000 if ctx.quick else 10 ** 6))
    xs.update(log_uniform(rng, 2, 10 ** 27, 300 if ctx.quick else 10 ** 4))
    xs.update(transitions(rng, 10 ** 27, 10 ** 31, 200 if ctx.quick else 5000))
    ops = ["gparams 128 %d -1 -1 1" % x for x in sorted(xs) if x <= 10 ** 31]

    def model_ops(ops_, impl):
        out = []
        for o, a in zip(ops_, impl):
            f = field_map(a)
            out.append("maxx_default_chk %s %s %s" % (o.split()[2], f["ay"], f["maxx"]) if "maxx" in f and f["maxx"] != "UB"
                       else "# " + a[:60])
        return out

    def judge(ops_, impl, mops, model):
        dis = []
        for i, (o, a, b) in enumerate(zip(ops_, impl, model)):
            if b != "env=1 ge110=1 pass=1" or field_map(a).get("ok") != "1":
                dis.append(dict(index=i, op=o, impl=a, model=b))
        return dis
    return Stream("maxx_default", ops, oracle=True, model_ops=model_ops, judge=judge, timeout=600)


def c12_streams(ctx):
    return [gourdon_stream(ctx), dr_stream(ctx),
            real_run_stream(ctx, 1200 if ctx.quick else 12000, 150 if ctx.quick else 1500),
            alphas_stream(ctx), maxx_default_stream(ctx)]


# ----------------------------------------------------------------------------------------------- witness search

def property_monitor(op, impl):
    """The property itself (ordering / magnitude of the parameters the REAL code derived), in exact integer arithmetic.
    Returns a description of the violated clause, or None."""
    p = op.split()
    try:
        if p[0] == "gvars":
            vals = impl.split()
            if len(vals) != 4:
                return None
            x = int(p[2])
            y, z, k, xs = map(int, vals)
        elif p[0] == "gparams":
            f = field_map(impl)
            if f.get("ok") != "1" or "xstar" not in f:
                return None
            x = int(p[2])
            y, z, k, xs = int(f["y"]), int(f["z"]), int(f["k"]), int(f["xstar"])
        elif p[0] in ("dvars", "dparams"):
            if p[0] == "dvars":
                vals = impl.split()
                if len(vals) != 3:
                    return None
                y, z, c = map(int, vals)
            else:
                f = field_map(impl)
                if f.get("ok") != "1" or "c" not in f:
                    return None
                y, z, c = int(f["y"]), int(f["z"]), int(f["c"])
            x = int(p[2])
            x13 = gen.iroot(3, x)
            if not (1 <= x13 <= y and z == x // y and 1 <= z < 2 ** 63 and c <= 8):
                return "Deleglise-Rivat: 1 <= x13 <= y, z = x / y < 2^63, c <= 8"
            if x < 2 ** 106 and not (y * y <= x):
                return "Deleglise-Rivat: y <= sqrt(x)"
            return None
        else:
            return None
    except ValueError:
        return None
    if x < 2:
        return None
    x13, sq, r4 = gen.iroot(3, x), gen.isqrt(x), gen.iroot(4, x)
    if not (1 <= xs <= y <= z and k == gen.get_k(x) and k <= 8 and x // y < 2 ** 63 and xs <= max(1, gen.isqrt(x // y))):
        return "Gourdon: 1 <= x_star <= y <= z, k = get_k(x) <= 8, x / y < 2^63, x_star <= max(1, sqrt(x / y))"
    if x >= 64 and not (x13 < y < sq and z < sq and r4 <= xs and x < (xs + 1) ** 4 and x < (xs + 1) * y * y):
        return "Gourdon (x >= 64): x^(1/3) < y < sqrt(x), z < sqrt(x), x^(1/4) <= x_star, x < (x_star+1)^4, x < (x_star+1) y^2"
    return None


def params_search(ctx, proof_broken, bad, dis):
    """disagreements of the parameter streams whose REAL values violate the property are failing inputs; the rest goes
    to the default search"""
    from . import runner
    rest, seen = [], 0
    for d in dis:
        why = None
        if d.get("stream", "").startswith("params_") and not d.get("crash") and not d.get("model_crash"):
            why = property_monitor(d.get("op", ""), d.get("impl", ""))
        if why is None:
            rest.append(d)
            continue
        if seen < 5:
            runner.emit_violation(ctx, "property", "the parameters derived by the real code violate: " + why,
                                  dict(failing_input=d["op"], expected=d.get("model"), observed=d.get("impl"), stream=d["stream"],
                                       key="%s:%s" % (d["stream"], d["op"].replace(" ", "_")),
                                       replay_hint="echo '%s' | <cache>/rel/pcharness" % d["op"]))
        seen += 1
    runner.default_search(ctx, proof_broken, bad, rest)
    return True


# ----------------------------------------------------------------------------------------------- C11 streams

def fastdiv_stream(ctx):
    """fast_div64 on boundary operands: the model says TRAP exactly when the quotient needs more than 64 bits; the real
    `div` instruction is executed in a child (SIGFPE = TRAP)"""
    rng = ctx.rng
    ops = []
    n = 400 if ctx.quick else 5000
    for _ in range(n):
        d = rng.choice((1, 2, 3, 2 ** 32 - 1, 2 ** 32, 2 ** 63, 2 ** 64 - 1, rng.getrandbits(rng.randint(1, 64)) | 1))
        for x in (d * 2 ** 64 - 1, d * 2 ** 64, d * 2 ** 64 + rng.randint(0, d), d * (2 ** 64 - 1) + d - 1, rng.getrandbits(127),
                  rng.getrandbits(rng.randint(1, 127))):
            if 0 <= x < 2 ** 128:
                ops.append("fdiv64 %d %d" % (x, d))
        ops.append("fdiv %d %d" % (rng.getrandbits(128), d))
    # call-site shaped operands: xp = x / p, divisor q resp. m, from the parameter ranges of x <= 4e31
    for x in log_uniform(rng, 10 ** 19, X_MAX, n):
        x13, sq = gen.iroot(3, x), gen.isqrt(x)
        y = rng.randint(x13 + 1, min(sq - 1, x13 * max(2, gen.iroot(6, x))))
        z = rng.randint(y, min(sq - 1, 4 * y))
        xs = max(gen.iroot(4, x), -(-x // (y * y)))
        xs = max(1, min(xs, y, gen.isqrt(x // y)))
        # A: p in (x_star, x13], q in (p, sqrt(x/p)]
        p = rng.randint(xs + 1, max(xs + 1, x13))
        q = rng.randint(p + 1, max(p + 1, gen.isqrt(x // p)))
        ops.append("fdiv64 %d %d" % (x // p, q))
        # C / D: p <= x_star, m with p*m > z
        p = rng.randint(2, xs)
        m = z // p + 1 + rng.choice((0, 0, 1, rng.randint(0, z)))
        ops.append("fdiv64 %d %d" % (x // p, m))
        # S2_hard / S2_easy: p*m > y (z = x / y)
        p = rng.randint(2, x13)
        m = y // p + 1 + rng.choice((0, 1, rng.randint(0, y)))
        ops.append("fdiv64 %d %d" % (x // p, m))
    ops += ["fdiv64 0 1", "fdiv64 %d 1" % (2 ** 64 - 1), "fdiv64 %d 1" % 2 ** 64, "fdiv64 5 0", "fdiv 5 0",
            "fdiv64 %d %d" % (2 ** 128 - 1, 2 ** 64 - 1), "fdiv64 %d %d" % (2 ** 128 - 2 ** 64 - 1, 2 ** 64 - 1)]
    return Stream("fast_div64_boundary", ops, oracle=True, classify=lambda o, r: o.split()[0] + ("/TRAP" if r == "TRAP" else ""),
                  timeout=600)


def wide_vs_narrow_params(ctx):
    """for x < 2^63 the 64-bit and the 128-bit entry point derive the same parameters"""
    rng = ctx.rng
    ops = []
    for x in xs_for_params(rng, 1500 if ctx.quick else 20000, hi=I64_MAX):
        ay, az, al = alpha_grid(rng, x), alpha_grid(rng, x), alpha_grid(rng, x)
        ops.append("gparams 64 %d %d %d 8" % (x, ay, az))
        ops.append("gparams 128 %d %d %d 8" % (x, ay, az))
        ops.append("dparams 64 %d %d 8" % (x, al))
        ops.append("dparams 128 %d %d 8" % (x, al))

    def judge(ops_, impl, mops, model):
        dis = []
        skip = ("ft16", "ftok", "prim32")
        for i in range(0, len(ops_), 2):
            f64, f128 = field_map(impl[i]), field_map(impl[i + 1])
            if f128.get("ok") != "1" or any(f64.get(k) != f128.get(k) for k in f64 if k not in skip):
                dis.append(dict(index=i, op=ops_[i] + " ; " + ops_[i + 1], impl=impl[i] + " | " + impl[i + 1],
                                model="identical derived parameters for both widths"))
        return dis
    return Stream("params_wide_vs_narrow", ops, oracle=True, judge=judge,
                  model_ops=lambda ops_, impl: ["# " + o for o in ops_], timeout=600)


def c11_streams(ctx):
    return [fastdiv_stream(ctx), wide_vs_narrow_params(ctx)]


# ----------------------------------------------------------------------------------------------- C04 stream

def c04_streams(ctx):
    return [real_run_stream(ctx, 500 if ctx.quick else 6000, 80 if ctx.quick else 800, name="params_real_run_alpha")]
