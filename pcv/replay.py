"""./check Cxx --replay <file>: re-run the witness recorded in a replay file against the current tree."""
import json
from . import core


def replay(pid, path):
    d = json.load(open(path))
    w = d.get("witness") or {}
    op = w.get("failing_input") or w.get("op")
    print("replay of %s (%s): %s" % (path, d.get("kind"), d.get("detail", "")[:200]))
    if not op:
        print("no concrete failing input recorded; broken obligation/stream: %s" % w.get("broken"))
        print("re-run:  ./check %s --tier %s   (VERIF_SEED=%s)" % (pid, d.get("tier"), d.get("seed")))
        return 1
    from . import gendriver
    gendriver.generate()
    rc, log, _ = core.lake_build(["pcdrv"])
    variant = w.get("variant", "rel")
    exe = core.ensure_harness(variant)
    ops = op.split(" ; ") if " ; " in op and not op.startswith(("lbs2", "lbp2", "lbac", "sieve", "history")) else [op]
    text = "\n".join(ops) + "\n"
    rc1, impl, err, _ = core.run_harness(exe, text, timeout=600, env=w.get("env"))
    rc2, model, err2, _ = core.run_model(text, timeout=600)
    bad = 0
    for o, a, b in zip(ops, impl + ["<no output>"] * len(ops), model + ["<no output>"] * len(ops)):
        same = (a == b)
        print("op: %s\n  implementation: %s\n  model/spec:     %s\n  %s" % (o, a[:500], b[:500], "agree" if same else "DIFFER"))
        bad += 0 if same else 1
    if rc1 != 0:
        print("harness exit status %d: %s" % (rc1, err[-800:]))
        bad += 1
    return 1 if bad else 0
