"""WP p2b — correspondence streams for the loop structure of P2 / B (src/P2.cpp, src/gourdon/B.cpp).

Real side: harness/ops_p2loop.cpp calls the file-local `P2_thread` / `B_thread` (compiled from the .cpp files
themselves), the real `LoadBalancerP2` object and the real `P2` / `B` entry points.
Model side (pcdrv, PcModel/Drv/P2Loop.lean), TWO answers per op:
  * mirror : the L2 loop model `Pc.P2L.p2Thread` (backward iterator, forward iterator with batches of seeded
             sizes, the two inner loops on the buffer) over the oracle prime table;
  * def    : the DEFINING sum  Σ π(x/q), q prime, y < q ≤ √x, low ≤ x/q < high  (what `p2Thread_eq` +
             `visited_iff` of PcProofs/P2Loop.lean prove the loop model equal to).
A difference real ≠ def is a failing input of the property (the chunk function is not the additive function the
dispenser theorem needs / the term is not its definition). A difference mirror ≠ def = real would be a defect of
the executable instance of the model (reported without failing input).
"""
from .runner import Stream
from . import gen

RULE_C08 = ("P2_thread/B_thread: every (x<=X, y, low, high<=x/y+2) exhaustively (X=250 quick / 500 thorough) incl. the "
            "ASSERT failures low=0, low>=high; chains of chunks whose boundaries sit on x/q, x/q+1 for primes q next to y, "
            "sqrt(x) and inside, single-integer chunks, low=sqrt(x), high=x/y, for x to 1e10 (64 and 128 bit); random "
            "chains for x to 1e12; distinct = distinct op lines")


TRUSTED_P2B = ["P2/B loops (WP p2b): primesieve::iterator is modelled by its contract IterSpec (prev_prime = largest prime not "
               "yet passed, generate_next_primes = non-empty increasing buffer of exactly the next primes; batch sizes arbitrary) — "
               "the sieving core behind it is C18's subject; pi_noprint is a parameter assumed = pi below x",
               "harness/ops_p2loop.cpp compiles src/P2.cpp and src/gourdon/B.cpp into the harness (renamed extern entry points) to "
               "reach the file-local P2_thread / B_thread; translator/extract_p2loop.py checks their statement sequences",
               "executable mirror = defining sum is proved for tables reaching 2*(x/(start+1)+1)+2 (Bertrand); beyond that the driver's "
               "table is sized by known prime gaps and mirror = def = real code is observed per op, not proved"]


def _bothname(op):
    a = op.split(" ", 1)
    return a[0] + "_both " + a[1]


def _two_answers(name, ops, timeout=900, classify=None):
    """impl vs (mirror, def): pcdrv answers `<mirror> | <def>` from one prime table"""

    def model_ops(ops_, impl):
        return [_bothname(o) for o in ops_]

    def judge(ops_, impl, mops, model):
        dis = []
        for i, o in enumerate(ops_):
            a = impl[i]
            if a in ("HANG", "CRASH", "SKIPPED"):
                continue
            m = model[i] if i < len(model) else "?"
            mir, dfn = m.split(" | ") if " | " in m else (m, m)
            if dfn.startswith("ERR:model-bound") or dfn == "MODEL-CRASH":
                continue
            if a != dfn:
                dis.append(dict(index=i, op=o, impl=a, model="%s   [defining sum; loop model: %s]" % (dfn, mir)))
            elif a != mir:
                dis.append(dict(index=i, op=o, impl=a, model_crash=True,
                                model="loop model answers %s but the defining sum and the real code agree on %s" % (mir, a)))
        return dis
    return Stream(name, ops, oracle=True, model_ops=model_ops, judge=judge, timeout=timeout,
                  classify=classify or (lambda o, r: o.split()[0] + o.split()[1]))


def exhaustive_ops(ctx):
    X = 250 if ctx.quick else 500
    ops = []
    for x in range(0, X + 1):
        sq = gen.isqrt(x)
        for y in range(0, sq + 3):
            xy = x // max(y, 1)
            hmax = xy + 2
            for low in range(0, hmax):
                k = (x + y + low) % 4
                ops.append("%s %s %d %d %d %d" % (("p2row", "brow")[k % 2], ("64", "128")[k // 2], x, y, low, hmax))
    return ops


def _primes_near(ps, v, k=2):
    """up to k primes below/at and above v from the sorted list ps"""
    import bisect
    i = bisect.bisect_right(ps, v)
    return ps[max(0, i - k):i + k]


def boundary_ops(ctx):
    """chains b0 < b1 < … < bk from sqrt(x) - 1 to x/y + 1 whose inner boundaries are x/q and x/q + 1 for primes q at
    the two ends of (y, sqrt x] and inside (so the chain contains the single-integer chunks [x/q, x/q+1)), the values
    of `high` where x/high reaches / leaves a prime, low = sqrt(x), high = x/y; plus the whole range as ONE chunk"""
    rng = ctx.rng
    ops = []
    q_ = ctx.quick
    xs = gen.structured_x(rng, 30, 10 ** 6, 500 if q_ else 2000)
    xs += gen.structured_x(rng, 10 ** 6, 10 ** 8, 300 if q_ else 1500)
    xs += gen.structured_x(rng, 10 ** 8, 10 ** 10, 60 if q_ else 300)
    # squares of primes and neighbours: sqrt(x) itself is (not) a prime
    ps_small = gen.primes_upto(100000)
    for p in rng.sample(ps_small[:2000], 8 if q_ else 60) + rng.sample(ps_small, 2 if q_ else 10):
        xs += [p * p - 1, p * p, p * p + 1, p * (p + 2)]
    for x in xs:
        if x < 4:
            continue
        sq, x13 = gen.isqrt(x), gen.iroot(3, x)
        lo_y = max(0, x13 // 2)
        ps = gen.primes_upto(min(sq + 50, 200000))
        cands = [x13, sq - 1, sq, rng.randint(lo_y, sq), rng.randint(x13, sq)]
        if x <= 10 ** 5:
            cands += [0, 1, sq + 1]
        # y equal to a prime, a prime - 1 (then the first visited prime is y + 1)
        for q in _primes_near(ps, rng.randint(max(2, x13), max(2, sq)), 1):
            cands += [q, q - 1]
        ys = sorted(set(c for c in cands if 0 <= c))
        if x > 10 ** 5:
            ys = rng.sample(ys, min(len(ys), 3 if x <= 10 ** 8 else 1))
        for y in ys:
            xy = x // max(y, 1)
            if xy > 10 ** 7:
                continue      # model-side table bound / run time
            w = rng.choice(("64", "128"))
            kind = rng.choice(("p2", "b"))
            lo0 = min(sq, xy)
            qs = set()
            for v in (y, y + 1, sq, sq - 1, rng.randint(min(y + 1, sq), sq), rng.randint(min(y + 1, sq), sq)):
                qs.update(q for q in _primes_near(ps, v, 2) if q >= 2)
            bset = {lo0, xy, xy + 1, max(1, lo0 - 1)}
            for q in sorted(qs):
                k = x // q
                bset.update((k, k + 1))
                # high with x / high == q exactly and the next one where it drops below q
                bset.update((x // (q + 1) + 1, x // (q + 1)))
            bs = sorted(b for b in bset if 1 <= b)
            if len(bs) >= 2:
                ops.append("%sthreads %s %d %d %s" % (kind, w, x, y, " ".join(map(str, bs))))
            if 1 <= lo0 < xy and (x <= 10 ** 6 or rng.random() < 0.3):
                ops.append("%sthread %s %d %d %d %d" % (kind, w, x, y, lo0, xy))
    # beyond 2^32 in every quantity the model's table can still hold (sqrt(x) ~ 3e7): y just below sqrt(x)
    if not ctx.quick:
        x = 10 ** 15 + rng.randint(0, 10 ** 6)
        sq = gen.isqrt(x)
        y = sq - 3000
        ops.append("p2threads 128 %d %d %d %d %d %d" % (x, y, sq, sq + 1000, sq + 1001, x // y))
    return ops


def random_chain_ops(ctx):
    rng = ctx.rng
    ops = []
    # moderate x: many chains with random boundaries
    for x in gen.structured_x(rng, 10 ** 4, 10 ** 9, 150 if ctx.quick else 800):
        sq, x13 = gen.isqrt(x), gen.iroot(3, x)
        y = rng.choice((x13, rng.randint(x13, sq), rng.randint(max(1, x13 // 3), x13 + 1)))
        xy = x // max(y, 1)
        if xy > 10 ** 7:
            y = max(y, x // 10 ** 7 + 1)
            xy = x // y
        lo0 = min(sq, xy)
        inner = sorted(set(rng.randint(lo0, max(lo0, xy)) for _ in range(rng.randint(0, 12))))
        bs = sorted(set([lo0] + inner + [xy]))
        if len(bs) >= 2:
            ops.append("%s %s %d %d %s" % (rng.choice(("p2threads", "bthreads")), rng.choice(("64", "128")), x, y,
                                           " ".join(map(str, bs))))
    # large x (to 1e12): one table of ~1e7 per op on the model side, so few of them
    for x in gen.structured_x(rng, 10 ** 11, 10 ** 12, 8 if ctx.quick else 40):
        sq = gen.isqrt(x)
        y = rng.randint(x // (9 * 10 ** 6), x // (4 * 10 ** 6))
        xy = x // y
        inner = sorted(set(rng.randint(sq, xy) for _ in range(5)))
        bs = sorted(set([sq] + inner + [xy]))
        ops.append("%s %s %d %d %s" % (rng.choice(("p2threads", "bthreads")), rng.choice(("64", "128")), x, y,
                                       " ".join(map(str, bs))))
    return ops


def c08_streams(ctx):
    return [_two_answers("p2loop-exhaustive", exhaustive_ops(ctx), timeout=1500),
            _two_answers("p2loop-boundary", boundary_ops(ctx), timeout=1500),
            _two_answers("p2loop-random-chains", random_chain_ops(ctx), timeout=1800)]


# --------------------------------------------------------------------------- whole runs (C03)
RULE_C03 = ("P2/B whole runs: the real OpenMP entry point with 1..16 requested threads AND the real LoadBalancerP2 driven "
            "by its team of simulated workers in seeded return orders, every chunk evaluated by the real P2_thread/B_thread; "
            "the model replays the recorded history (acceptor + loop model per chunk + reduction) and must give the value "
            "of the real entry point, the same for every thread count / order / print mode of the same (x, y)")


def run_ops(ctx):
    rng = ctx.rng
    ops = []
    groups = []     # (start, count) ops of the same (kind, x, y) -> all whole values equal
    xs = [0, 1, 3, 4, 5, 8, 9, 10, 24, 25, 26, 100, 1000]
    xs += gen.structured_x(rng, 10 ** 3, 10 ** 9, 14 if ctx.quick else 120)
    big = gen.structured_x(rng, 10 ** 10, 4 * 10 ** 11, 1 if ctx.quick else 8)
    for x in xs + big:
        sq, x13 = gen.isqrt(x), gen.iroot(3, x)
        if x in big:
            # several chunks: x / y - sqrt(x) well above min_thread_dist = 2^23, still inside the model's table
            y = rng.randint(x // (16 * 10 ** 6) + 1, x // (12 * 10 ** 6))
            ys = [y]
        else:
            ys = sorted(set([0, 1, x13, sq - 1, sq, sq + 1, rng.randint(0, sq + 1)]))
            ys = [y for y in ys if y >= 0 and x // max(y, 1) <= 2 * 10 ** 7]
            if x > 1000:
                ys = rng.sample(ys, min(3, len(ys)))
        for y in ys:
            for kind in ("p2run", "brun"):
                start = len(ops)
                combos = ([(2, 1), (3, 0)] if ctx.quick else [(1, 0), (2, 1), (3, 0), (16, 0)]) if x in big else [(1, 0), (3, 1), (8, 0)]
                for (t, pr) in combos:
                    ops.append("%s %s %d %d %d %d %d 4000" % (kind, rng.choice(("64", "128")), x, y, t, pr, rng.getrandbits(30)))
                groups.append((start, len(ops) - start))
    # histories with 5-6 chunks: x / y ~ 4.5e7 (the largest table the model side builds, ~14 s per op)
    for x in gen.structured_x(rng, 10 ** 11, 10 ** 12, 1 if ctx.quick else 2):
        y = rng.randint(x // (50 * 10 ** 6) + 1, x // (40 * 10 ** 6))
        for kind, t in ((("p2run", 4),) if ctx.quick else (("p2run", 4), ("brun", 8))):
            start = len(ops)
            ops.append("%s %s %d %d %d 0 %d 4000" % (kind, rng.choice(("64", "128")), x, y, t, rng.getrandbits(30)))
            if not ctx.quick:
                ops.append("%s %s %d %d 1 1 %d 4000" % (kind, rng.choice(("64", "128")), x, y, rng.getrandbits(30)))
            groups.append((start, len(ops) - start))
    return ops, groups


def c03_streams(ctx):
    ops, groups = run_ops(ctx)

    def model_ops(ops_, impl):
        out = []
        for o, a in zip(ops_, impl):
            f, t = o.split(), a.split()
            if not t or t[0] != "R" or len(t) < 7:
                out.append("# no run: " + a[:60])
                continue
            evs = [":".join(e.split(":")[:4]) for e in t[7:]]
            out.append("%s_check %s %s %s %s %s %s %s" % (f[0], f[1], f[2], f[3], t[3], t[4], f[5], " ".join(evs)))
        return [m.rstrip() for m in out]

    def judge(ops_, impl, mops, model):
        dis = []
        for i, (o, a) in enumerate(zip(ops_, impl)):
            if a in ("HANG", "CRASH", "SKIPPED"):
                continue
            m = model[i] if i < len(model) else "?"
            if m.startswith("ERR:model-bound"):
                continue
            if a != m:
                dis.append(dict(index=i, op=o, impl=a[:400], model=m[:400]))
        for (s, n) in groups:
            vals = set(impl[j].split()[1] for j in range(s, s + n) if impl[j].startswith("R "))
            if len(vals) > 1:
                dis.append(dict(index=s, op=" ; ".join(ops_[s:s + n]), impl=" ".join(sorted(vals)),
                                model="the value must not depend on threads / order / print"))
        return dis
    return [Stream("p2b-whole-runs", ops, oracle=True, model_ops=model_ops, judge=judge, timeout=2400,
                   env={"PCV_OP_TIMEOUT": "120"}, classify=lambda o, r: o.split()[0] + o.split()[1])]
