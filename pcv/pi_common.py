"""Shared pieces of the C01 / C05 checks: input generators, judges for the batched ops of
harness/ops_pi.cpp <-> lean/PcModel/Drv/Pi.lean, and the witness search that narrows a wrong
prime count down to ONE integer n with pi_impl(n) - pi_impl(n-1) != [n is prime]."""
import bisect

from . import core
from . import runner

MAX_CACHED = 128 * 240 - 1
T_LEGENDRE = 10 ** 5
T_MEISSEL = 10 ** 8
I64MAX = 2 ** 63 - 1
I128MAX = 2 ** 127 - 1


def regime(x):
    if x < 0:
        return "negative"
    if x <= MAX_CACHED:
        return "cache"
    if x <= T_LEGENDRE:
        return "legendre"
    if x <= T_MEISSEL:
        return "meissel"
    if x <= I64MAX:
        return "gourdon64"
    return "gourdon128"


# ---------------------------------------------------------------- input generators (inputs only: nothing
# below takes part in judging a result, so e.g. the Miller-Rabin test only shapes the distribution)

def _is_probable_prime(n):
    if n < 2:
        return False
    for p in (2, 3, 5, 7, 11, 13, 17, 19, 23, 29, 31, 37):
        if n % p == 0:
            return n == p
    d, s = n - 1, 0
    while d % 2 == 0:
        d //= 2
        s += 1
    for a in (2, 3, 5, 7, 11, 13, 17, 19, 23, 29, 31, 37):
        x = pow(a, d, n)
        if x in (1, n - 1):
            continue
        for _ in range(s - 1):
            x = x * x % n
            if x == n - 1:
                break
        else:
            return False
    return True


def next_prime(n):
    n = max(n, 2)
    while not _is_probable_prime(n):
        n += 1
    return n


def log_uniform(rng, lo, hi):
    """integer whose logarithm is uniform in [log lo, log hi]"""
    import math
    return int(math.exp(rng.uniform(math.log(lo), math.log(hi))))


def structured_xs(rng, hi, n):
    """about n values <= hi: primes, primes-1, semiprimes, perfect powers +-1, multiples of 240/2310/510510
    (+-1), log-uniform values"""
    xs = []
    while len(xs) < n:
        kind = len(xs) % 6
        if kind == 0:
            xs.append(log_uniform(rng, 10, hi))
        elif kind == 1:
            p = next_prime(log_uniform(rng, 10, hi))
            xs.append(p + rng.choice((-1, 0, 0, 1)))
        elif kind == 2:
            r = int(hi ** 0.5)
            p, q = next_prime(log_uniform(rng, 2, r)), next_prime(log_uniform(rng, 2, r))
            xs.append(p * q + rng.choice((-1, 0, 0, 1)))
        elif kind == 3:
            k = rng.choice((2, 2, 3, 4, 5, 6, 7))
            b = log_uniform(rng, 2, max(3, int(hi ** (1.0 / k))))
            xs.append(b ** k + rng.choice((-1, 0, 1)))
        elif kind == 4:
            m = rng.choice((240, 2310, 510510, 240 * 64, 30030))
            xs.append(m * log_uniform(rng, 1, max(2, hi // m)) + rng.choice((-1, 0, 1)))
        else:
            e = rng.randint(4, max(5, hi.bit_length() - 1))
            xs.append(2 ** e + rng.randint(-3, 3))
    return [x for x in xs if 0 <= x <= hi]


def expand(toks):
    """protocol sugar of ops_pi.cpp / Drv/Pi.lean: the token `lo..hi` stands for lo, lo+1, ..., hi"""
    out = []
    for t in toks:
        k = t.find("..")
        if k > 0:
            out += [str(v) for v in range(int(t[:k]), int(t[k + 2:]) + 1)]
        else:
            out.append(t)
    return out


# ---------------------------------------------------------------- judges

def batch_judge(ctx, stream_name):
    """judge for `pi_batch <entry> x1 x2 ...` lines: one disagreement per wrong element"""
    def judge(ops, impl, mops, model):
        dis = []
        for i, (o, a, b) in enumerate(zip(ops, impl, model)):
            p = o.split()
            entry, xs = p[1], expand(p[2:])
            if a in ("HANG", "CRASH", "SKIPPED"):
                continue
            av, bv = a.split(","), b.split(",")
            ctx.res.evaluations += max(0, len(xs) - 1)
            if len(av) != len(xs) or len(bv) != len(xs):
                dis.append(dict(index=i, op=o[:200], impl=a[:200], model=b[:200], malformed=True))
                continue
            for x, u, v in zip(xs, av, bv):
                xi = int(x)
                if xi > MAX_CACHED:
                    ctx.res.distinct.add((stream_name, xi))
                if u != v:
                    dis.append(dict(index=i, op="pi_batch %s %s" % (entry, x), impl=u, model=v,
                                    entry=entry, x=xi, absolute=True))
        return dis
    return judge


def window_judge(ctx, stream_name, prime_hist=None):
    """judge for `piwin <entry> a d1 d2 ...` lines (harness) against the model lines produced by
    `window_model_ops` (same order)"""
    def judge(ops, impl, mops, model):
        dis = []
        flat = []
        for line in model:
            flat += [g.strip() for g in line.split(" / ")] if " / " in line else [line.strip()]
        for i, (o, a) in enumerate(zip(ops, impl)):
            b = flat[i] if i < len(flat) else "MODEL-MISSING"
            p = o.split()
            entry, lo, ds = p[1], int(p[2]), [int(t) for t in expand(p[3:])]
            if a in ("HANG", "CRASH", "SKIPPED"):
                continue
            av, bv = a.split(","), b.split(",")
            ctx.res.evaluations += len(ds)
            if len(av) != len(ds) or len(bv) != len(ds):
                dis.append(dict(index=i, op=o[:200], impl=a[:200], model=b[:200], malformed=True))
                continue
            if bv and bv[-1].isdigit():
                if int(bv[-1]) > 0:
                    ctx.res.distinct.add((stream_name, lo, ds[-1]))
                if prime_hist is not None:
                    k = min(int(bv[-1]) // 100, 9)
                    prime_hist[k] = prime_hist.get(k, 0) + 1
            for d, u, v in zip(ds, av, bv):
                if u != v:
                    dis.append(dict(index=i, op="piwin %s %d %d" % (entry, lo, d), impl=u, model=v,
                                    entry=entry, a=lo, d=d, window=True))
                    break
        return dis
    return judge


def window_model_ops(big=10 ** 13):
    """model lines for a list of `piwin` harness ops: windows with b >= big are answered from ONE base
    sieve (`piwins`, when there are enough of them to pay for it), the others individually with the wheel.
    The order of answers is the order of the ops (the judge flattens ` / ` groups), so big windows must be
    contiguous at the end: the stream generators sort accordingly."""
    def f(ops, impl):
        small, bigs = [], []
        for o in ops:
            p = o.split()
            b = int(p[2]) + max(int(t) for t in expand(p[3:]))
            (bigs if b >= big else small).append(o)
        assert ops == small + bigs, "window ops must be ordered: small windows first"
        if len(bigs) >= 12:
            return small + ["piwins x " + " / ".join(" ".join(o.split()[2:]) for o in bigs)]
        return small + bigs
    return f


def order_windows(ops, big=10 ** 13):
    isbig = lambda o: int(o.split()[2]) + max(int(t) for t in expand(o.split()[3:])) >= big
    return [o for o in ops if not isbig(o)] + [o for o in ops if isbig(o)]


# ---------------------------------------------------------------- witness search

def _impl_values(entry, ns, timeout=900, op_timeout="600"):
    exe = core.ensure_harness("rel")
    rc, out, err, _ = core.run_harness(exe, "pi_batch %s %s\n" % (entry, " ".join(str(n) for n in ns)),
                                       timeout=timeout, env={"PCV_OP_TIMEOUT": op_timeout})
    if not out:
        return [None] * len(ns)
    vals = out[0].split(",")
    return [int(v) if v.lstrip("-").isdigit() else None for v in vals] + [None] * (len(ns) - len(vals))


def _model_primes(a, b):
    rc, out, err, _ = core.run_model("winlist %d %d\n" % (a, b), timeout=1800)
    if rc != 0 or not out or out[0].startswith("ERR"):
        return None
    return [] if out[0] == "-" else [int(t) for t in out[0].split(",")]


def bisect_window(entry, a, b):
    """returns dict(n, impl_step, is_prime, ...) with impl(n) - impl(n-1) != [n prime], a < n <= b, or None.
    The primes of (a, b] come from the PROVED window sieve (`winlist`)."""
    primes = _model_primes(a, b)
    if primes is None:
        return None
    cnt = lambda n: bisect.bisect_right(primes, n)
    va = _impl_values(entry, [a])[0]
    vb = _impl_values(entry, [b])[0]
    if va is None or vb is None:
        return dict(n=(a if va is None else b), impl_step=None, is_prime=None,
                    note="the entry point failed (error instead of a value)")
    if vb - va == cnt(b):
        return None
    lo, hi = a, b           # invariant: impl(lo) - va == cnt(lo), impl(hi) - va != cnt(hi)
    while hi - lo > 1:
        mid = (lo + hi) // 2
        vm = _impl_values(entry, [mid])[0]
        if vm is None or vm - va != cnt(mid):
            hi = mid
        else:
            lo = mid
    v = _impl_values(entry, [hi - 1, hi])
    step = None if None in v else v[1] - v[0]
    return dict(n=hi, impl_step=step, is_prime=(hi in set(primes)), impl_at_n=v[1], impl_at_n_minus_1=v[0],
                window=[a, b], entry=entry)


def search(ctx, proof_broken, bad, dis, pid):
    """Common `search` of C01 and C05. Every disagreement of an oracle-backed stream is turned into a
    concrete failing integer."""
    rest = []
    seen_abs, nwin, ndiff = {}, 0, 0
    for d in dis:
        if d.get("absolute"):
            seen_abs.setdefault(d["x"], []).append(d)
    for x in sorted(seen_abs, key=abs)[:4]:
        ds = seen_abs[x]
        runner.emit_violation(
            ctx, "wrong-count", "pi(%d): expected %s (proved oracle), observed %s" % (
                x, ds[0]["model"], ", ".join("%s=%s" % (e["entry"], e["impl"]) for e in ds)),
            dict(failing_input=x, expected=ds[0]["model"], observed={e["entry"]: e["impl"] for e in ds},
                 stream=ds[0]["stream"], key="pi:%s:%d" % (ds[0]["entry"], x),
                 also_wrong=len(seen_abs) - 1, replay_hint="primecount %d" % x if x >= 0 else "echo 'pi128 %d' | pcharness" % x))
    for d in dis:
        if d.get("absolute"):
            continue
        elif d.get("window") and nwin < 3:
            nwin += 1
            a, b = d["a"], d["a"] + d["d"]
            w = bisect_window(d["entry"], a, b)
            if w is None:
                rest.append(d)
                continue
            runner.emit_violation(
                ctx, "wrong-count",
                "stream %s: pi(%d) - pi(%d) via %s = %s but the window holds %s primes; narrowed to n=%d: "
                "pi_impl(n) - pi_impl(n-1) = %s, n prime = %s" % (d["stream"], b, a, d["entry"], d["impl"], d["model"],
                                                               w["n"], w["impl_step"], w["is_prime"]),
                dict(failing_input=w["n"], expected="pi(n) - pi(n-1) = %d" % (1 if w["is_prime"] else 0),
                     observed=w, stream=d["stream"], key="pi:%s:%d" % (d["entry"], w["n"]),
                     replay_hint="primecount %d ; primecount %d   (difference must be %d)" % (
                         w["n"], w["n"] - 1, 1 if w["is_prime"] else 0)))
        elif d.get("differ") and ndiff < 3:
            ndiff += 1
            runner.emit_violation(
                ctx, "entry-points-differ", "stream %s: the entry points return different values for x=%d: %s" % (
                    d["stream"], d["x"], d["impl"]),
                dict(failing_input=d["x"], expected="one value on every entry point", observed=d["impl"],
                     stream=d["stream"], key="pidiff:%d" % d["x"], replay_hint="echo 'piall %d' | pcharness" % d["x"]))
        elif d.get("window") or d.get("differ"):
            pass
        else:
            rest.append(d)
    if rest or proof_broken or bad:
        runner.default_search(ctx, proof_broken, bad, rest)
    return True
