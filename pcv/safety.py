"""WP safety — correspondence stream for the closed form of P2.cpp:109 at wide magnitudes (C16 finding F9).

`P2_OpenMP<T>(x, y, a, ...)` computes `(a - 2) * (a + 1) / 2` with `int64_t a`: an int64_t product whatever `T` is.
For `a = pi(y) >= 3037000501` (y >= ~7.3e10; reached by `primecount 1e27 --P2` / `-d` under default tuning, by
`primecount 1e22 --P2 --alpha=3713.2` in 8 s, and by the internal API directly) it overflows (UBSan: P2.cpp:109:19) and
the returned value is off by 2^63.

Real side: harness/ops_safety.cpp `p2wide x y a b` = P2((int128_t) x, y, a, 1) (a, b checked against the library's pi).
Model side: PcModel/Drv/Safety.lean `p2wide` = exact `P2(x, a)` for an interval (y, isqrt x] without primes
(`P2_refines` + `B = 0`), so a disagreement is a failing input (oracle stream).
The ops are chosen so that the sieved range has a handful of numbers: each costs < 0.3 s (the two pi() calls).

On the tree this WP started from (/repo 0995f00) the stream reports the violation (6 of 30 ops, which is the finding F9).
/repo 8cccffb ("fix: P2(int128_t x, y, a) overflowed a 64-bit product", committed while this WP ran) computes the product in T:
the stream is a regression guard and is ON by default; PCV_SAFETY_P2WIDE=0 switches it off.
"""
import os
from .runner import Stream

# tabulated pi(10^k) (OEIS A006880); 10^k is composite, so pi(10^k - 1) = pi(10^k)
PI10 = {3: 168, 4: 1229, 5: 9592, 6: 78498, 7: 664579, 8: 5761455, 9: 50847534, 10: 455052511, 11: 4118054813,
        12: 37607912018}


def p2wide_ops(ctx):
    ops = []
    for k in sorted(PI10):
        s = 10 ** k
        a = PI10[k]
        # x = s^2 .. s^2 + 2s: isqrt(x) = s; y = s - 1: the interval (y, s] = {10^k} holds no prime
        for x in (s * s, s * s + ctx.rng.randrange(1, 2 * s), s * s + 2 * s):
            ops.append("p2wide %d %d %d %d" % (x, s - 1, a, a))
    return ops


def enabled():
    return os.environ.get("PCV_SAFETY_P2WIDE", "1") != "0"


def streams(ctx):
    if not enabled():
        return []
    return [Stream("p2-wide-closed-form", p2wide_ops(ctx), oracle=True, timeout=300,
                   classify=lambda o, r: "a>=3037000501" if int(o.split()[3]) >= 3037000501 else "a<3037000501")]
