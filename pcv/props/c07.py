"""C07 — phi(x, a) is the exact Legendre sum for all x and a."""
import bisect
import math

from ..runner import Stream

RULE = ("exhaustive x <= 600 (quick) / 3000 (thorough) x all a <= pi(x)+2 (public API, plus internal entry with 3 threads on "
        "every 7th x); x <= 10^7 (structured + seeded log-uniform) with a at 0,1,7,8,9,100,130, pi(sqrt x)-1..+1, pi(x)-1..+1, "
        "pix_upper(x)-1..+1, x/2, x/2+1, 2^62 and random a, threads in {API,1,3,16}; int64 edges (negatives, INT64_MIN/MAX); "
        "phi_tiny on i64/u64/i128/u128 around multiples of the prime products; Legendre recurrence (three implementation "
        "values) and closed form pi(x)-a+1 for x up to 10^12 (quick) / 10^15 (thorough); distinct = distinct (entry, x, a)")
TRUSTED = [
    "oracle side: Lean driver PcModel/Drv/PhiAlg.lean (definition for x <= 5000; Legendre recurrence over Lean's own sieve, "
    "bottoming out in the PROVEN phi_tiny model, for x <= 10^7) — independent of primecount/primesieve, not itself proved",
    "judge ops phi3_judge / phi_pix_judge only combine numbers printed by the implementation (consistency, not an oracle): "
    "the Legendre recurrence and Legendre's formula with primecount::pi",
    "harness ops_phi.cpp calls primecount::phi (public, internal with threads), primecount_phi, phi_tiny",
    "L1 abstraction: pix_upper, pi_noprint, PiTable, prime vector, cache content are parameters of the theorems "
    "(TopOK / EnvOK / CacheOK hypotheses); the sieve arrays of PhiCache are modelled bit by bit and proved in PcProps/C07Cache.lean (phi_cpp_correct discharges CacheOK); pix_upper stays a named hypothesis",
]
ASSUMPTIONS = [
    "pi(x) <= pix_upper(x) for x > 30719 (floating point formula x/(log x - 1.1) + 10 from the literature): named hypothesis "
    "TopOK.pixUpperX / pixUpperSqrt; exercised at a = pix_upper(x)-1..+1 for x <= 10^7",
    "pi_noprint(x) = pi(x) (property C01) inside phi_pix",
    "phi_tiny ops: 0 <= x (the header casts to unsigned; negative x is outside the domain of phi_tiny)",
]

I64MAX = 2 ** 63 - 1
I64MIN = -2 ** 63
_PRIMES = None


def primes():
    """primes <= 10^7 + 1000 (test generator side only)"""
    global _PRIMES
    if _PRIMES is None:
        n = 10 ** 7 + 1000
        s = bytearray([1]) * (n + 1)
        s[0] = s[1] = 0
        for i in range(2, int(n ** 0.5) + 1):
            if s[i]:
                s[i * i::i] = bytearray(len(range(i * i, n + 1, i)))
        _PRIMES = [i for i in range(n + 1) if s[i]]
    return _PRIMES


def pi(x):
    return bisect.bisect_right(primes(), x)


def pix_upper(x):
    if x <= 30719:
        return pi(x)
    return int(x / (math.log(x) - 1.1)) + 10


def regime(x, a):
    if x < 1:
        return "x<1"
    if a < 1:
        return "a<1"
    if a > x // 2:
        return "a>x/2"
    if a <= 8:
        return "tiny"
    if x <= 10 ** 14:
        if a >= pix_upper(x):
            return "a>=pix_upper"
        r = math.isqrt(x)
        if a > pix_upper(r) or a > pi(r):
            return "phi_pix"
        return "main"
    return "large"


def a_places(x, rng, nrand):
    r = math.isqrt(x)
    ps, px, pu = pi(r), pi(x), pix_upper(x)
    s = {0, 1, 2, 7, 8, 9, 10, 38, 39, 99, 100, 101, 129, 130, 131, ps - 1, ps, ps + 1, px - 1, px, px + 1, pu - 1, pu, pu + 1,
         x // 2 - 1, x // 2, x // 2 + 1, 2 ** 62, -1, pix_upper(r) - 1, pix_upper(r), pix_upper(r) + 1}
    for _ in range(nrand):
        s.add(rng.randint(1, max(1, ps)))
        s.add(rng.randint(1, max(1, px + 2)))
        s.add(int(math.exp(rng.uniform(0, math.log(max(2, px))))))
    return sorted(v for v in s if I64MIN <= v <= I64MAX)


def batch_judge(ops, impl, mops, model):
    """split `phi_batch t x a1 a2 ...` lines and report the first differing (x, a) of each line"""
    dis = []
    for i, (o, a, b) in enumerate(zip(ops, impl, model)):
        if a in ("HANG", "CRASH", "SKIPPED") or a == b:
            continue
        w = o.split()
        if w[0] != "phi_batch":
            dis.append(dict(index=i, op=o, impl=a, model=b))
            continue
        t, x, as_ = w[1], w[2], w[3:]
        av, bv = a.split(","), b.split(",")
        hit = False
        for k, aa in enumerate(as_):
            va = av[k] if k < len(av) else "?"
            vb = bv[k] if k < len(bv) else "?"
            if va != vb:
                op1 = ("phi %s %s" % (x, aa)) if t == "0" else ("phi_t %s %s %s" % (x, aa, t))
                dis.append(dict(index=i, op=op1, impl=va, model=vb))
                hit = True
                break
        if not hit:
            dis.append(dict(index=i, op=o, impl=a[:200], model=b[:200]))
    return dis


def generated_obligations():
    """kernel-checked obligations of lean/PcGen/PhiTinyObl.lean (unsetLarger, shape, 4 plain tables, 4 sieve tables)"""
    return 10


def streams(ctx):
    rng = ctx.rng
    q = ctx.quick
    P = primes()
    out = []

    # ---- A. exhaustive small x, every a (one line per x)
    ops = []
    nx = 600 if q else 3000
    for x in range(-2, nx + 1):
        amax = (pi(x) if x > 0 else 0) + 2
        as_ = " ".join(str(a) for a in range(-1, amax + 1))
        ops.append("phi_batch 0 %d %s" % (x, as_))
        if x % 7 == 3:
            ops.append("phi_batch 3 %d %s" % (x, as_))
        if x % 50 == 11:
            ops.append("phi_batch 16 %d %s" % (x, as_))
    st = Stream("exhaustive", ops, oracle=True, judge=batch_judge, timeout=600,
                nontrivial=lambda op, res: op, classify=lambda op, res: "threads=" + op.split()[1])
    out.append(st)
    ctx.res.extra["exhaustive_pairs"] = sum(len(o.split()) - 3 for o in ops)

    # ---- B. x <= 10^7 against the recurrence oracle
    xs = set()
    for e in range(4, 8):
        for d in (-1, 0, 1):
            xs.add(10 ** e + d)
    for pr in (P[20], P[168], P[445], P[446], P[1228]):
        xs.update([pr * pr - 1, pr * pr, pr * pr + 1])
    xs.update([5000, 5001, 30719, 30720, 30721, 2 * 3 * 5 * 7 * 11 * 13 * 17, 9699690, 9699689, 10 ** 7])
    nr = 150 if q else 1500
    while len(xs) < nr + 25:
        xs.add(int(math.exp(rng.uniform(math.log(3001), math.log(10 ** 7)))))
    ops = []
    tcycle = [0, 1, 3, 16]
    for k, x in enumerate(sorted(v for v in xs if 1 <= v <= 10 ** 7)):
        as_ = a_places(x, rng, 4 if q else 10)
        ops.append("phi_batch %d %d %s" % (tcycle[k % 4], x, " ".join(str(a) for a in as_)))
    out.append(Stream("sample1e7", ops, oracle=True, judge=batch_judge, timeout=900,
                      nontrivial=lambda op, res: op, classify=lambda op, res: "threads=" + op.split()[1]))
    ctx.res.extra["sample1e7_pairs"] = sum(len(o.split()) - 3 for o in ops)

    # ---- C. int64 edges through all three entry points (only arguments the guards decide)
    ops = []
    bigx = [I64MIN, I64MIN + 1, -2 ** 62, -10 ** 9, -1, 0, 1, 2, 3, 4, 7, 8, 9, 15, 16, 17, 10 ** 18, 2 ** 62, I64MAX - 1, I64MAX]
    for x in bigx:
        cand = {I64MIN, -2 ** 62, -1, 0, 1, 2, 3, 7, 8, 2 ** 62, 2 ** 62 + 1, I64MAX - 1, I64MAX}
        if x > 0:
            cand.update([x // 2, x // 2 + 1, x // 2 + 2, x, x - 1])
        for a in sorted(cand):
            if not (I64MIN <= a <= I64MAX):
                continue
            decided = x < 1 or a < 1 or a <= 8 or (2 * a >= x and x >= 8) or x <= 10 ** 7
            if not decided:
                continue
            ops.append("phi %d %d" % (x, a))
            ops.append("cphi %d %d" % (x, a))
            ops.append("phi_t %d %d %d" % (x, a, rng.choice([1, 3, 16])))
    for _ in range(200 if q else 5000):
        x = rng.choice([-1, 1]) * rng.getrandbits(rng.randint(1, 63))
        a = rng.choice([-1, 1]) * rng.getrandbits(rng.randint(1, 63))
        if rng.random() < 0.5:
            a = rng.randint(-2, 8)
        elif x > 16 and rng.random() < 0.7:
            a = rng.randint(x // 2, min(I64MAX, x + 5))
        decided = x < 1 or a < 1 or a <= 8 or (2 * a >= x and x >= 8)
        if decided and I64MIN <= x <= I64MAX and I64MIN <= a <= I64MAX:
            ops.append("%s %d %d" % (rng.choice(["phi", "cphi"]), x, a))
    out.append(Stream("edges", ops, oracle=True, timeout=300,
                      classify=lambda op, res: regime(int(op.split()[1]), int(op.split()[2]))))

    # ---- D. phi_tiny, 64- and 128-bit
    ops = []
    TY = {"i64": 2 ** 63 - 1, "u64": 2 ** 64 - 1, "i128": 2 ** 127 - 1, "u128": 2 ** 128 - 1}
    pp = [1, 2, 6, 30, 210, 2310, 30030, 510510, 9699690]
    for ty, mx in TY.items():
        pts = {0, 1, 2, 18, 19, 20, 240, 510509, 510510, 510511, mx, mx - 1, 2 ** 64 - 1 if mx >= 2 ** 64 else mx, 2 ** 64 if mx > 2 ** 64 else 0,
               2 ** 64 + 1 if mx > 2 ** 64 else 1}
        for P_ in pp:
            for m in (1, 2, 19, rng.randint(1, mx // P_)):
                for d in (-1, 0, 1):
                    pts.add(m * P_ + d)
        for _ in range(150 if q else 4000):
            pts.add(rng.getrandbits(rng.randint(1, mx.bit_length())))
        for x in sorted(v for v in pts if 0 <= v <= mx):
            for a in (range(0, 9) if (x < 10 ** 7 or rng.random() < 0.2) else (7, 8, rng.randint(0, 6))):
                ops.append("phitiny %s %d %d" % (ty, x, a))
    for y in list(range(0, 40)) + [2 ** 32, 2 ** 63, 2 ** 64 - 1]:
        ops.append("phitiny_get_c %d" % y)
    for _ in range(200):
        ops.append("phitiny_get_k i64 %d" % rng.getrandbits(rng.randint(1, 63)))
        ops.append("phitiny_get_k i128 %d" % rng.getrandbits(rng.randint(1, 127)))
    for k in range(2, 21):
        for d in (-1, 0):
            ops.append("phitiny_get_k i128 %d" % (k ** 4 + d))
    out.append(Stream("tiny", ops, oracle=True, timeout=300, classify=lambda op, res: " ".join(op.split()[:2]) if op.startswith("phitiny ") else op.split()[0]))

    # ---- E. top of the int64 range on the main path: regression guard for the ceil_div overflow in
    #         ideal_num_threads (aborted for x > 2^63 - 10^10; fixed in /repo 176f90f, theorem phiThreads_safe)
    safe = I64MAX - 10 ** 10 + 1        # largest x with x + 10^10 - 1 <= INT64_MAX
    ops = ["phi %d 9" % safe, "phi %d 12" % (safe - 12345), "phi %d 9" % (safe + 1), "phi %d 9" % I64MAX]
    out.append(Stream("int64_edge", ops, oracle=True, timeout=300))

    # ---- F. Legendre recurrence on three implementation values (judge)
    ops = []
    hi = 10 ** 12 if q else 10 ** 15
    n = 300 if q else 3000
    for k in range(n):
        x = int(math.exp(rng.uniform(math.log(10 ** 7), math.log(hi))))
        if k % 5 == 0:
            x = rng.choice([10 ** 9, 10 ** 10, 10 ** 11, 10 ** 12]) + rng.randint(-2, 2)
        if k % 8 in (4, 6) or k % 16 == 1:
            # the cache of phi.cpp grows with x^(1/2.3): also visit the top decades in the quick tier
            x = int(math.exp(rng.uniform(math.log(10 ** 12), math.log(10 ** 14))))
        r = math.isqrt(x)
        psr = pi(r) if r <= 10 ** 7 else None
        amax = min(len(P) - 1, 200000 if q else 600000)
        choice = k % 4
        if choice == 0:
            a = rng.randint(9, 140)
        elif choice == 1 and psr is not None:
            a = min(amax, max(9, psr + rng.randint(-2, 2)))
        elif choice == 2:
            a = int(math.exp(rng.uniform(math.log(9), math.log(amax))))
        else:
            a = rng.randint(1, 9)
        # three calls must fit the 20 s per-op alarm: few threads only for moderate x
        t = rng.choice(tcycle) if x <= 10 ** 12 else rng.choice([0, 16])
        ops.append("phi3 %d %d %d %d" % (t, min(x, 10 ** 14), a, P[a - 1]))

    def mops3(ops_, impl):
        res = []
        for o, r in zip(ops_, impl):
            w = o.split()
            v = r.split(",")
            if len(v) == 3 and all(t.lstrip("-").isdigit() for t in v):
                res.append("phi3_judge %s %s %s %s" % (w[2], w[3], w[4], " ".join(v)))
            else:
                res.append("phi3_judge %s %s %s x x x" % (w[2], w[3], w[4]))
        return res

    def judge_ok(ops_, impl, mops, model):
        dis = []
        for i, (o, a, b) in enumerate(zip(ops_, impl, model)):
            if a in ("HANG", "CRASH", "SKIPPED"):
                continue
            if b != "ok":
                dis.append(dict(index=i, op=o, impl=a, model=b))
        return dis
    out.append(Stream("recurrence", ops, oracle=True, model_ops=mops3, judge=judge_ok, timeout=900,
                      classify=lambda op, res: regime(int(op.split()[2]), int(op.split()[3]))))

    # ---- F2. the regime where PhiCache's 16 MiB-per-thread limit is ACTIVE (x^(1/2.3) * ... : x > ~1.2e15 for a >= 130,
    #          higher for smaller a): max_x_ / max_x_size_ / max_a_ are then clamped and must stay consistent with each
    #          other (seeded change C16-a: stale max_x_ after the clamp => out-of-bounds sieve access). Recurrence on three
    #          implementation values, a few threads settings.
    ops = []
    n = 24 if q else 120
    for k in range(n):
        # thorough: mostly below 1e17 (a few seconds per op), every 8th op up to 1e18 (~20 s each, several minutes under load)
        top = 2 * 10 ** 16 if q else (10 ** 18 if k % 8 == 7 else 10 ** 17)
        x = int(math.exp(rng.uniform(math.log(1.3 * 10 ** 15), math.log(top))))
        if k % 6 == 0:
            x = rng.choice([2 * 10 ** 15, 10 ** 16, 3647040 ** 2 * 100]) + rng.randint(-2, 2)
        a = rng.choice([rng.randint(130, 260), rng.randint(50, 130), rng.randint(260, 2000)] if k % 3 else [199, 200, 130, 131])
        ops.append("phi3 %d %d %d %d" % (rng.choice([0, 16, 1] if x < 10 ** 16 else [0, 16]), x, a, P[a - 1]))
    out.append(Stream("recurrence_cache_clamped", ops, oracle=True, model_ops=mops3, judge=judge_ok, timeout=4 * 3600,
                      env={"PCV_OP_TIMEOUT": "1200"},       # x up to 1e18: ~20 s per op on a loaded machine
                      classify=lambda op, res: "x>=1e15"))

    # ---- G. closed form phi(x, a) = pi(x) - a + 1 for a >= pi(sqrt x) (judge; a = pi(sqrt x) is Legendre's formula
    #         through the full algorithm)
    ops = []
    n = 200 if q else 2000
    for k in range(n):
        x = int(math.exp(rng.uniform(math.log(10 ** 4), math.log(hi if k % 3 else 10 ** 9))))
        r = math.isqrt(x)
        if r > 10 ** 7:
            continue
        psr = pi(r)
        pu = pix_upper(r)
        a = rng.choice([psr, psr, psr + 1, psr + 2, pu - 1, pu, pu + 1, pu + 2, psr + rng.randint(0, 10 * psr + 10),
                        pix_upper(x) - 1, pix_upper(x), pix_upper(x) + 1])
        a = max(1, psr, a)      # the closed form needs a >= pi(sqrt x)
        ops.append("phi_pix %d %d" % (x, a))

    def mopsp(ops_, impl):
        res = []
        for o, r in zip(ops_, impl):
            w = o.split()
            v = r.split(",")
            if len(v) == 2 and all(t.lstrip("-").isdigit() for t in v):
                res.append("phi_pix_judge %s %s %s" % (w[1], w[2], " ".join(v)))
            else:
                res.append("phi_pix_judge %s %s x x" % (w[1], w[2]))
        return res
    out.append(Stream("closed_form", ops, oracle=True, model_ops=mopsp, judge=judge_ok, timeout=900,
                      classify=lambda op, res: regime(int(op.split()[1]), int(op.split()[2]))))
    return out
