"""C05 — pi(b) - pi(a) equals the number of primes in (a, b]."""
from ..runner import Stream
from .. import pi_common as pc

RULE = ("windows (a, a+d] with d <= 10^4 and a log-uniform in [1, 10^16] (half of them placed so that a window "
        "straddles a multiple of 240*2^j, 2310, 510510 or a power of two / ten), plus windows straddling the dispatcher "
        "thresholds 30719, 10^5, 10^8 and a = 0..3; each op asks pi at a and at three points of the window through "
        "pi(std::string) (some through pi64 / pi128) and the three differences are compared with the proved window "
        "sieve; about 20 calls of the real code lie above 10^15 in the quick tier. thorough: 10x more windows, one "
        "window across 2^63 (64-bit -> 128-bit code) and one across 65537^4 (x_star crosses 2^16). distinct = windows containing at least one prime.")
TRUSTED = ["`piApi128_diff` / `piApi_mono` are corollaries of C01.piApi_correct and carry its RouteCorrect hypotheses "
           "(discharged by C17, C02/C07, C08; Gourdon partial)",
           "ORACLE side is unconditional: windowPrimes_correct, windowDeltas_wheel/_sieve, windowList_correct "
           "(segmented sieve over base candidates <= sqrt b; no primecount, no primesieve, no probabilistic test)",
           "harness/ops_pi.cpp `piwin` calls the real entry point at a and a+d and prints differences",
           "a shift of pi that is constant over a whole window is invisible to this property (see C01 / C08)"]
ASSUMPTIONS = ["b <= 10^16 (quick) / 2^63 + 10^4 (thorough); b - a <= 10^4"]


def windows(ctx, n, top):
    rng = ctx.rng
    ws = []
    for i in range(n):
        a = pc.log_uniform(rng, 1, top)
        if i % 2 == 1:
            kind = rng.randint(0, 4)
            if kind == 0:
                m = 240 * 2 ** rng.randint(0, 12)
            elif kind == 1:
                m = rng.choice((2310, 510510, 30030, 9699690))
            elif kind == 2:
                m = 2 ** rng.randint(5, 52)
            elif kind == 3:
                m = 10 ** rng.randint(2, 15)
            else:
                m = int(a ** 0.5) ** 2 or 1       # a perfect square just inside the window
            if kind == 4:
                a = max(0, m - rng.randint(0, 40))
            elif a >= m:
                a = (a // m) * m - rng.randint(0, 40)
        dmax = rng.choice((10, 100, 1000, 10000, rng.randint(1, 10000), 10000))
        ds = sorted(set([rng.randint(1, dmax), rng.randint(1, dmax), dmax]))
        if a >= 10 ** 15:           # the real code needs ~0.5 s per call up there: three calls per window
            ds = ds[-2:]
        ws.append((a, ds))
    return ws


def streams(ctx):
    rng = ctx.rng
    hist = {}
    ops = []
    # fixed: small a and the dispatcher thresholds
    for a in (0, 1, 2, 3):
        ops.append("piwin pistr %d 1..59" % a)
    for t in (pc.MAX_CACHED, pc.T_LEGENDRE, pc.T_MEISSEL):
        for e in ("pistr", "pi64", "pi128"):
            ops.append("piwin %s %d %s" % (e, t - 5000 + rng.randint(0, 20), "4000 5000 5001 10000"))
    n = 120 if ctx.quick else 1500
    for i, (a, ds) in enumerate(windows(ctx, n, 10 ** 16)):
        e = "pistr" if i % 5 else rng.choice(("pi64", "pi128"))
        ops.append("piwin %s %d %s" % (e, a, " ".join(map(str, ds))))
    ops = pc.order_windows(ops)
    big = sum(1 for o in ops if int(o.split()[2]) >= 10 ** 15)
    ctx.res.extra["windows_above_1e15"] = big
    ctx.res.extra["primes_per_window_histogram_by_100"] = hist
    sts = [Stream("windows", ops, oracle=True, model_ops=pc.window_model_ops(),
                  judge=pc.window_judge(ctx, "windows", hist), nontrivial=lambda o, r: None,
                  classify=lambda o, r: "1e%02d" % (len(o.split()[2]) - 1), timeout=1800,
                  env={"PCV_OP_TIMEOUT": "120"})]
    if not ctx.quick:
        # across the 64-bit / 128-bit boundary: pi(2^63 - 1) is the last 64-bit call, pi(2^63) the first 128-bit one
        a = 2 ** 63 - 10 ** 4
        ops = ["piwin pi128 %d 9999 10000 20000" % a, "piwin pistr %d 9999 10000 20000" % a]
        wj = pc.window_judge(ctx, "across-2^63")
        # both ops ask for the same window: ONE model line (the table-free window sieve needs ~5 min up there)
        sts.append(Stream("across-2^63", ops, oracle=True, model_ops=lambda ops_, impl: [ops_[0]],
                          judge=lambda ops_, impl, mops, model: wj(ops_, impl, mops, model * len(ops_)),
                          nontrivial=lambda o, r: None, timeout=6 * 3600, env={"PCV_OP_TIMEOUT": "7200"}))
        # x_star = x^(1/4) crosses 2^16 at x = 65537^4 (> 2^64): from there on the primes of the A/C formulas no longer fit
        # 16 bits and their squares no longer fit the 32-bit element type of the prime tables — the only place where the
        # DEFAULT tuning crosses that type boundary (seeded change C05-a: pi DEcreased by 7e12 exactly there)
        a = 65537 ** 4 - 3
        ops = ["piwin pistr %d 2 3 4" % a]
        sts.append(Stream("x_star-crosses-2^16", ops, oracle=True, model_ops=pc.window_model_ops(),
                          judge=pc.window_judge(ctx, "x_star-crosses-2^16"), nontrivial=lambda o, r: None,
                          timeout=6 * 3600, env={"PCV_OP_TIMEOUT": "7200"}))
    return sts


def search(ctx, proof_broken, bad, dis):
    return pc.search(ctx, proof_broken, bad, dis, "C05")
