"""C14 — the C API never throws, signals errors with -1 and respects the caller's buffer."""
from ..runner import Stream, emit_violation

VARIANTS = ["rel", "san"]

RULE = ("cpistr: every len in 0..64 x {NULL, filled} result buffer x a set of x strings (valid small, valid long "
        "spelling, expressions, invalid, empty, too large, NULL) + seeded random x/fill, on the ASan+UBSan build with "
        "poisoned 64-byte canaries and on the release build; scalar C functions at int64 boundary values; seeded call "
        "sequences (<= 200 calls in one process). distinct = distinct op lines that call a C function (the ops fetching the C++ answer are not counted)")
TRUSTED = ["L2 model of src/api_c.cpp (PcModel/CApi.lean); the C++ counterpart's answer is an input of the model "
           "(taken from the real C++ API by a preceding harness op): C14 judges the wrapper, not the number",
           "translator/extract_capi.py: textual recognition of the try/catch shape of the 8 C entry points and of every "
           "`throw` expression under src/ include/ lib/primesieve/{src,include}",
           "harness/ops_capi.cpp + capture.hpp: buffer of exactly len bytes between two 64-byte canaries (poisoned under "
           "ASan during the call), stderr captured to a temporary file and counted"]
ASSUMPTIONS = ["len <= 2^31 (then (int) pix.length() is the length)",
               "exceptions thrown inside OpenMP parallel regions (e.g. std::bad_alloc in a worker) end in std::terminate "
               "before reaching the C wrapper: not modelled",
               "stack exhaustion by deeply nested parentheses in x (calculator recursion) is not an exception: not modelled"]

I64MIN, I64MAX = -2**63, 2**63 - 1
MAX_N = 216289611853439384


def generated_obligations():
    return 6


def hx(s):
    return s.encode().hex() if s else "-"


X_STRINGS = ["0", "1", "2", "9", "10", "100", "1000", "12345", "99999", "100000", "1000000", "10000000000",
             "10**20/10**15", "00000000000000000000000100", "(1+2)*3", "-5",
             "1/0", "", "abc", "1e40", "1" + "0" * 40, "1" + "0" * 37, "2**"]
X_BIG = ["10000000000000", "1000000000000000"]      # 12 and 14 result digits: only around the boundary lengths


def cpistr_ops(ctx, san):
    ops = []
    rng = ctx.rng
    # "1e40" overflows int128 inside calculator.hpp (signed-overflow UB, DESIGN finding F2 / property C13):
    # UBSan aborts there before the C wrapper is involved, so it is only sent to the release build
    xs = [x for x in X_STRINGS if not (san and x == "1e40")]
    for _ in range(6 if ctx.quick else 60):
        xs.append(str(rng.getrandbits(rng.randint(1, 30))))
    for x in xs:
        ops.append("pistr_cpp " + hx(x))
        fill = "%02x" % rng.choice([0x00, 0x30, 0x39, 0x7f, 0xee, 0xff, rng.randrange(256)])
        for res in ("NULL", fill):
            for n in range(0, 65):
                ops.append("cpistr %s %s %d" % (hx(x), res, n))
    for res in ("NULL", "ee"):
        for n in range(0, 65):
            ops.append("cpistr NULL %s %d" % (res, n))
    for x in (X_BIG[:1] if (san and ctx.quick) else X_BIG):
        ops.append("pistr_cpp " + hx(x))
        for n in (0, 1, 2, 11, 12, 13, 14, 15, 16, 32, 64):
            ops.append("cpistr %s a5 %d" % (hx(x), n))
    return ops


def scalar_ops(ctx, san):
    rng = ctx.rng
    ops = []

    def both(fn, *args):
        s = " ".join(str(a) for a in args)
        ops.append(("cppcall %s %s" % (fn, s)).strip())
        ops.append(("ccall %s %s" % (fn, s)).strip())
    pis = [I64MIN, I64MIN + 1, -2**32, -2**31, -1, 0, 1, 2, 3, 4, 10, 100, 7919, 10**4, 15485863, 10**5, 10**5 + 1,
           10**8, 10**8 + 1, 10**9]
    if not san:
        pis.append(10**10)
    pis += [rng.getrandbits(rng.randint(1, 26)) for _ in range(30)]
    for x in pis:
        both("pi", x)
    nths = [I64MIN, -2**31, -1, 0, 1, 2, 3, 168, 169, 170, 3314, 3315, 10**5, 10**6, MAX_N + 1, I64MAX]
    if not san:
        nths.append(10**7)
    nths += [rng.randint(1, 10**5) for _ in range(20)]
    for n in nths:
        both("nth", n)
    phis = [(I64MIN, 0), (I64MIN, I64MIN), (-1, 5), (0, 0), (0, 5), (1, 0), (1, 1), (100, -1), (100, I64MIN), (100, 0),
            (100, 3), (100, 25), (100, 26), (100, I64MAX), (I64MAX, I64MAX), (I64MAX, 1), (I64MAX, 7), (I64MAX, 0),
            (I64MAX, I64MIN), (10**6, 10), (10**6, 168), (10**6, 169), (10**7, 100), (10**9, 3401), (10**9, 3402)]
    phis += [(rng.getrandbits(rng.randint(1, 24)), rng.randint(0, 200)) for _ in range(30)]
    for x, a in phis:
        both("phi", x, a)
    both("gt")
    for t in (0, -1, -2**31, 2**31 - 1, 1, 2, 3, 1000000, 0, 5):
        ops.append("ccall st %d" % t)
        both("gt")
    both("maxx")
    both("ver")
    return ops


def history_ops(ctx):
    rng = ctx.rng
    lines = []
    nlines = 6 if ctx.quick else 80
    xs = ["0", "7", "100", "12345", "1/0", "", "abc", "1" + "0" * 40, "99999", "2**10", "10000000000"]
    for _ in range(nlines):
        toks = []
        for _ in range(rng.randint(20, 200)):
            k = rng.random()
            if k < 0.35:
                x = rng.choice(xs + [str(rng.getrandbits(rng.randint(1, 24)))])
                xa = "NULL" if rng.random() < 0.08 else hx(x)
                res = "NULL" if rng.random() < 0.08 else "%02x" % rng.randrange(256)
                toks.append("pis:%s:%s:%d" % (xa, res, rng.choice([0, 1, 2, 3, 4, 5, 6, 7, 8, 10, 11, 12, 16, 32, 64])))
            elif k < 0.5:
                toks.append("pi:%d" % rng.choice([I64MIN, -1, 0, 1, 2, 100, 10**5 + 1, 10**8 + 1, rng.getrandbits(rng.randint(1, 28))]))
            elif k < 0.6:
                toks.append("nth:%d" % rng.choice([I64MIN, -1, 0, 1, 169, 170, 3315, MAX_N + 1, I64MAX, rng.randint(1, 10**5)]))
            elif k < 0.7:
                toks.append("phi:%d:%d" % (rng.choice([I64MIN, -1, 0, 1, 100, 10**6, rng.getrandbits(20)]),
                                           rng.choice([I64MIN, -1, 0, 1, 7, 8, 100, rng.randint(0, 300)])))
            elif k < 0.82:
                toks.append("st:%d" % rng.choice([0, -1, 1, 2, 3, 7, 64, 2**31 - 1, -2**31, rng.randint(-5, 40)]))
            elif k < 0.94:
                toks.append("gt")
            elif k < 0.97:
                toks.append("maxx")
            else:
                toks.append("ver")
        lines.append("chist " + ",".join(toks))
    return lines


def model_ops(ops, impl):
    """append what the real C++ API answered to the model's op line"""
    last = {}
    out = []
    for op, res in zip(ops, impl):
        p = op.split()
        if p[0] in ("pistr_cpp", "cppcall"):
            last[(p[0], tuple(p[1:]))] = res
            out.append("echo " + res)
        elif p[0] == "cpistr":
            cpp = "none" if p[1] == "NULL" else last.get(("pistr_cpp", (p[1],)), "missing")
            out.append(op + " " + cpp)
        elif p[0] == "ccall":
            cpp = "-" if p[1] == "st" else last.get(("cppcall", tuple(p[1:])), "missing")
            out.append(op + " " + cpp)
        elif p[0] == "chist":
            toks, rs = p[1].split(","), res.split(",")
            if len(toks) != len(rs):
                out.append("chist BAD")
            else:
                out.append("chist " + ",".join(t + "@" + r.split("/")[0] for t, r in zip(toks, rs)))
        else:
            out.append(op)
    return out


def classify(op, res):
    p = op.split()
    if p[0] == "cpistr":
        r = res.split()
        ret = r[0] if r else "?"
        return "cpistr:%s:%s" % ("x=NULL" if p[1] == "NULL" else ("res=NULL" if p[2] == "NULL" else "buf"),
                                 "err" if ret == "-1" else "ok")
    if p[0] == "ccall":
        return "ccall:%s:%s" % (p[1], "err" if res.startswith("-1 ") else "ok")
    return p[0]


def nontrivial(op, res):
    # the ops that only fetch the C++ answer are echoed by the model: they are inputs, not comparisons
    return None if op.split()[0] in ("pistr_cpp", "cppcall") else op


def streams(ctx):
    tinfo = ctx.res.extra.get("translator", {}).get("extract_capi", {})
    if "extractor_shape_changed" in tinfo:
        emit_violation(ctx, "translator", "extract_capi.py no longer recognises the source: " + tinfo["extractor_shape_changed"],
                       dict(failing_input=None, broken="translator/extract_capi.py (shape of api_c.cpp / primecount.h / a throw expression)"))
    sts = []
    hist = history_ops(ctx)
    san_env = {"ASAN_OPTIONS": "abort_on_error=1:print_legend=0", "UBSAN_OPTIONS": "abort_on_error=1"}
    for variant in ("san", "rel"):
        san = variant == "san"
        sts.append(Stream("cpistr-" + variant, cpistr_ops(ctx, san), oracle=True, model_ops=model_ops, nontrivial=nontrivial,
                          classify=classify, variant=variant, timeout=600, env=san_env if san else None))
        sts.append(Stream("cscalar-" + variant, scalar_ops(ctx, san), oracle=True, model_ops=model_ops, nontrivial=nontrivial,
                          classify=classify, variant=variant, timeout=600, env=san_env if san else None))
        sts.append(Stream("chist-" + variant, hist if not (san and ctx.quick) else hist[:3], oracle=True, nontrivial=nontrivial,
                          model_ops=model_ops, classify=classify, variant=variant, timeout=600, env=san_env if san else None))
    return sts
