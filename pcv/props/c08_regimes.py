"""C08 — parameter regimes that only exist at magnitudes the small-scope streams never reach, chosen from the TYPE
boundaries inside the kernels rather than from the default tuning curve:
  * x_star >= 2^16  (primes handled by A / C1 / C2 exceed 16 bits, so prime * prime exceeds 32 bits — the prime tables are
    Vector<uint32_t>): needs x / y^2 >= 65536, i.e. y ~ x^(1/3) (alpha_y ~ 1) and x >= 2.8e14; with default tuning only
    x >= 65537^4 ~ 1.8e19 gets there;
  * y ~ x^(1/3)+1 with z = y and with z >> y (alpha_z large).
The identity A - B + C + D + Phi0 + Sigma is judged against the independent Deleglise-Rivat decomposition of the same x
(both proved = pi(x): PcProps/C08.lean) and the default-tuned value."""
from ..runner import Stream
from .. import gen

RULE = ("ident_gourdon at x in [2.9e14, 3e15] with y in {x13+1, x13+2, ~1.02*x13} (x_star = x/y^2 >= 2^16) and z in {y, 2y, 40y}, "
        "both widths, against ident_dr and the default-tuned algorithm at the same x; distinct = distinct op lines")
TRUSTED = ["judge = equality of three independently computed totals (two proved decompositions + default tuning)"]


def streams(ctx):
    rng = ctx.rng
    ops = []
    n = 4 if ctx.quick else 40
    xs = [65537 ** 3 + rng.randint(0, 10 ** 9), 6 * 10 ** 14 + rng.randint(-5, 5)]
    xs += gen.structured_x(rng, 29 * 10 ** 13, 3 * 10 ** 15, n)
    # two fixed cases with y = 1.1 * x^(1/3): x_star = x / y^2 ~ 0.83 * x^(1/3) >= 2^16 lies well below y, so the two-prime loops of
    # D / A / C2 run over MANY primes p >= 2^16 with second primes in (p, y] (seeded change C15-b: `prime * prime` in uint32_t)
    xs = [9 * 10 ** 14 + rng.randint(0, 10 ** 9), 7 * 10 ** 14 + rng.randint(0, 10 ** 9)] + xs
    for i, x in enumerate(xs):
        x13, sq = gen.iroot(3, x), gen.isqrt(x)
        y = x13 + x13 // 10 if i < 2 else rng.choice([x13 + 1, x13 + 2, x13 + x13 // 50, x13 + x13 // 10])
        if x // (y * y) < 65536:
            y = x13 + 1
        z = min(rng.choice([y, y, 2 * y, 40 * y]), sq - 1)
        yd = gen.iroot(3, x) * rng.choice([1, 2, 7])
        w = rng.choice(("64", "128"))
        t = 16
        ops.append("ident_gourdon %s %d %d %d %d %d" % (w, x, y, z, gen.get_k(x), t))
        ops.append("ident_dr %s %d %d %d %d" % (w, x, yd, gen.get_c(yd), t))
        ops.append("alg gourdon64 %d %d" % (x, t))

    def judge(ops_, impl, mops, model):
        dis = []
        for i in range(0, len(ops_), 3):
            tot = [impl[i].split()[-1], impl[i + 1].split()[-1], impl[i + 2]]
            if len(set(tot)) != 1:
                dis.append(dict(index=i, op=" ; ".join(ops_[i:i + 3]), impl=" | ".join(impl[i:i + 3]),
                                model="all three totals must be equal (= pi(x))"))
        return dis

    return [Stream("identities_type_boundary_regimes", ops, oracle=True, judge=judge,
                   model_ops=lambda o, impl: ["# " + s for s in o], timeout=1800,
                   classify=lambda op, r: op.split()[0])]
