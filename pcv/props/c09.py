"""C09 — load balancers hand out every part of the range exactly once and terminate.

Tie between the Lean model and /repo: TRACE ACCEPTOR. The harness (harness/ops_lb.cpp) drives the REAL
LoadBalancerS2 / LoadBalancerP2 / LoadBalancerAC objects with k simulated workers, a seeded return order
and a seeded virtual clock, and prints the whole get_work history as one line. `pcdrv` (PcModel/Dispenser.lean)
replays that history against the L2 step relation (all integer state exact, float-derived decisions =
nondeterministic choices) and answers `ok <chunks> <lo> <hi> <sum>` or `reject <index> <reason>`.
The theorems of PcProps/C09.lean hold for EVERY accepted history.

On a rejected trace (or a broken proof/obligation) the L1 monitor below is evaluated directly on the recorded
implementation traces: a gap, overlap, misalignment, empty chunk, premature/missing stop or a lost/duplicated
contribution is a failing input (the trace); otherwise the violation is reported without failing input.
"""
from ..runner import Stream, emit_violation

RULE = ("histories of the real balancer objects: ranges 1..2^62 (log-uniform, aligned boundaries +-1), workers 1..64, "
        "print on/off, seeded return orders and duration alphabets {0,1us,1ms,1s,7h} / physically consistent / all-zero; "
        "bounded-exhaustive small scopes (3 workers, explicit schedules over the 5-letter alphabet; labelled validation); "
        "distinct = distinct op lines whose history handed out at least 2 chunks")
TRUSTED = ["L2 models mirror the INTEGER state of the three classes; every float-derived decision is a free choice "
           "(the double arithmetic of update_number_of_segments / increase_threshold / cbrt / pow is not modelled)",
           "workers are modelled by their protocol: a ThreadData carries back exactly what it was handed "
           "(S2_hard.cpp, D.cpp, AC.cpp do not write low/segments/segment_size) and get_work is atomic (LockGuard)",
           "harness ops_lb.cpp: single OS thread, virtual clock through verif_get_time_hook, stdout of the status "
           "printers redirected to /dev/null",
           "trace acceptor: a history is checked step by step against the step relation; sampled histories only"]
ASSUMPTIONS = ["sieve_limit <= 2^62, threads 1..64", "adversarial duration alphabets only for ranges <= 2^54; "
               "ranges up to 2^62 use physically consistent durations (init + length * rate, rate >= 2^-34 s)",
               "no_overflow is partial: proved per step under an explicit bound on low_, segment_size_*segments_ and threads"]

ALIGN = 240
TRACES = {}          # stream name -> list of (op, harness line) ; filled by the judges, used by search()


# --------------------------------------------------------------------------- contribution function (as in the harness)
def G(n, zthr):
    m = max(n, zthr)
    return m * m + m


def contrib(lo, hi, zthr):
    return G(hi, zthr) - G(lo, zthr)


# --------------------------------------------------------------------------- generators
def isqrt(n):
    import math
    return math.isqrt(n)


def rand_limit(rng, maxbits):
    r = rng.random()
    if r < 0.5:
        v = rng.getrandbits(rng.randint(1, maxbits))
    elif r < 0.8:
        k = rng.getrandbits(rng.randint(1, max(1, maxbits - 8)))
        v = ALIGN * k + rng.choice((-1, 0, 1))
    else:
        base = rng.choice((131072 * 30, 1048576 * 30, 131072 * 15, 1 << 23, 7680, 720))
        v = base * rng.randint(1, 1 << rng.randint(1, max(1, maxbits - 26))) + rng.choice((-1, 0, 1))
    return max(1, min(v, (1 << maxbits)))


def s2_op(rng, cap, big):
    maxbits = 62 if big else 54
    limit = rand_limit(rng, maxbits) if not big else max(1 << 54, rand_limit(rng, 62))
    x = min(10 ** 31, max(limit, limit ** rng.choice((1, 2, 2, 3)) + rng.getrandbits(20)))
    threads = rng.choice((1, 1, 2, 3, 4, 8, 16, 63, 64, rng.randint(1, 64)))
    pr = rng.randint(0, 1)
    alpha = 1 if big else rng.choice((0, 0, 1, 2, 3))
    zthr = rng.choice((0, 0, limit // rng.randint(2, 1000), limit))
    approx = rng.getrandbits(rng.randint(1, 100))
    return "lbs2 %d %d %d %d %d %d %d %d %d" % (x, limit, approx, threads, pr, rng.getrandbits(32), cap, alpha, zthr)


def p2_op(rng, cap, big):
    limit = rand_limit(rng, 62 if big else 54)
    r = rng.random()
    if r < 0.6:
        x = min(10 ** 31, rng.randint(0, limit * limit + 5))
    elif r < 0.8:
        x = rng.randint(0, limit)
    else:
        x = min(10 ** 31, limit * limit * rng.randint(1, 4))
    threads = rng.choice((1, 1, 2, 3, 4, 8, 16, 63, 64, rng.randint(1, 64)))
    return "lbp2 %d %d %d %d %d %d %d %d" % (x, limit, threads, rng.randint(0, 1), rng.getrandbits(32), cap,
                                              rng.choice((0, 1, 2, 3)), rng.choice((0, limit // 3)))


def ac_op(rng, cap, big):
    sqrtx = rand_limit(rng, 62 if big else 54)
    y = rng.choice((0, rng.randint(0, sqrtx), isqrt(sqrtx) * rng.randint(1, 50), sqrtx // rng.randint(1, 100)))
    threads = rng.choice((1, 1, 2, 3, 4, 8, 16, 63, 64, rng.randint(1, 64)))
    alpha = 1 if big else rng.choice((0, 0, 1, 2, 3))
    return "lbac %d %d %d %d %d %d %d %d" % (sqrtx, y, threads, rng.randint(0, 1), rng.getrandbits(32), cap,
                                              alpha, rng.choice((0, sqrtx // 3)))


def schedules(depth, width, workers=3, letters="abcde", inits=("a", None)):
    """all explicit schedules of `depth` steps; width 3: worker, secs, init ; width 2: worker, secs"""
    steps = []
    for w in range(workers):
        for d in letters:
            if width == 3:
                for i in inits:
                    steps.append("%d%s%s" % (w, d, d if i is None else i))
            else:
                steps.append("%d%s" % (w, d))
    out = [""]
    for _ in range(depth):
        out = [a + b for a in out for b in steps]
    return out


def exhaustive_ops(ctx):
    """bounded-exhaustive small scopes (validation of the acceptor on every schedule of a small scope)"""
    d = 2 if ctx.quick else 3
    s2, p2, ac = [], [], []
    # small ranges (integer logic only) and ranges where x^(1/4) >= L1/L2 segment size (float part reached at once)
    s2cfg = [(10 ** 6, 3000, 0), (10 ** 6, 2879, 1), (10 ** 12, 100000, 0), (10 ** 31, 2 * 10 ** 9, 0),
             (10 ** 31, 6 * 10 ** 8 + 1, 1), (10 ** 24, 9 * 10 ** 7, 0), (10 ** 28, 10 ** 18, 0)]
    for (x, limit, pr) in s2cfg:
        for s in schedules(d, 3):
            s2.append("lbs2 %d %d %d 3 %d s%s 400 0 0" % (x, limit, 12345, pr, s))
    for (x, limit, pr) in s2cfg[2:5]:
        for s in schedules(d, 3):
            s2.append("lbs2 %d %d %d 3 %d s%s 400 0 %d" % (x, limit, 12345, pr, s, limit // 4))
    for (sq, y, pr) in [(10 ** 8, 20000, 0), (10 ** 8, 0, 1), (7681, 10, 0), (3 * 10 ** 9, 10 ** 5, 0), (4 * 10 ** 12, 10 ** 5, 0)]:
        for s in schedules(d + 1, 2):
            ac.append("lbac %d %d 3 %d s%s 400 0 0" % (sq, y, pr, s))
    for (x, limit, pr) in [(10 ** 12, 10 ** 9, 0), (10 ** 4, 10 ** 8, 1), (0, 1, 0), (10 ** 18, 10 ** 9, 0), (10 ** 20, 3 * 10 ** 11, 0)]:
        for s in schedules(d + 3, 2, letters="a"):
            p2.append("lbp2 %d %d 3 %d s%s 400 0 0" % (x, limit, pr, s))
    return s2, p2, ac


# --------------------------------------------------------------------------- trace parsing
def parse_trace(op, line):
    """-> dict(kind, start, limit, zthr, complete, nchunks, total, events=[dict]) or None"""
    a, t = op.split(), line.split()
    if not t or t[0] != "T":
        return None
    kind = a[0]
    tr = dict(kind=kind, nev=int(t[1]), nchunks=int(t[2]), total=int(t[3]), complete=t[4] == "1")
    if kind == "lbs2":
        tr.update(x=int(a[1]), limit=int(a[2]), threads=int(a[4]), pr=int(a[5]), zthr=int(a[9]) if len(a) > 9 else 0,
                  start=0, raw=t[5:])
        names = "w tlow tsegs tsize tsum secs init work olow osegs osize sumafter".split()
    elif kind == "lbp2":
        tr.update(x=int(a[1]), limit=int(a[2]), threads=int(a[3]), pr=int(a[4]), zthr=int(a[8]) if len(a) > 8 else 0,
                  team=int(t[5]), raw=t[6:])
        tr["start"] = min(isqrt(tr["x"]), tr["limit"])
        names = "w work low high".split()
    else:
        tr.update(limit=int(a[1]), y=int(a[2]), threads=int(a[3]), pr=int(a[4]), zthr=int(a[8]) if len(a) > 8 else 0,
                  start=0, raw=t[5:])
        names = "w tlow tsegs tsize secs work olow osegs osize".split()
    evs = []
    for e in tr["raw"]:
        f = e.split(":")
        if len(f) != len(names):
            return None
        evs.append(dict(zip(names, map(int, f))))
    tr["events"] = evs
    return tr


def model_op(op, line):
    a, t = op.split(), line.split()
    if not t or t[0] != "T":
        return "# no trace: " + line[:80]
    if a[0] == "lbs2":
        return "lbs2_check %s %s %s %s %s" % (a[1], a[2], a[4], a[5], " ".join(t[5:]))
    if a[0] == "lbp2":
        return "lbp2_check %s %s %s %s %s %s %s" % (a[1], a[2], a[3], a[4], t[5], a[8] if len(a) > 8 else "0", " ".join(t[6:]))
    return "lbac_check %s %s %s %s %s %s" % (a[1], a[2], a[3], a[4], a[8] if len(a) > 8 else "0", " ".join(t[5:]))


# --------------------------------------------------------------------------- L1 monitor on an implementation trace
def monitor(tr):
    """Evaluates the property itself on a recorded history. Returns None or (index, what)."""
    kind, limit, start, zthr = tr["kind"], tr["limit"], tr["start"], tr["zthr"]
    covered = start            # end of the union of the chunks handed out so far (clipped)
    stopped = False
    held = {}                  # worker -> chunk it holds
    acc = 0
    nchunks = 0
    prev_sum = 0
    for i, e in enumerate(tr["events"]):
        w = e["w"]
        if kind == "lbs2":
            lo, size, segs = e["olow"], e["osize"], e["osegs"]
            hi = min(lo + size * segs, limit)
            # sum accounting: get_sum() moves by exactly what the worker reported, which is f(its chunk)
            want = contrib(*held[w], zthr) if w in held else 0
            if e["tsum"] != want:
                return (i, "harness worker reported %d for chunk %s, expected %d" % (e["tsum"], held.get(w), want))
            if e["sumafter"] != prev_sum + e["tsum"]:
                return (i, "sum: get_sum() went from %d to %d although the worker reported %d (lost or duplicated contribution)"
                        % (prev_sum, e["sumafter"], e["tsum"]))
            prev_sum = e["sumafter"]
            acc += want
            held.pop(w, None)
        elif kind == "lbac":
            lo, size, segs = e["olow"], e["osize"], e["osegs"]
            hi = min(lo + size * segs, limit)
            if w in held:
                acc += contrib(*held.pop(w), zthr)
        else:
            lo, hi = e["low"], e["high"]
            size = segs = None
            if w in held:
                acc += contrib(*held.pop(w), zthr)
        if e["work"]:
            if stopped:
                return (i, "work handed out after a request was already told to stop")
            if kind != "lbp2":
                if segs < 1 or size < ALIGN or size % ALIGN:
                    return (i, "misaligned: segments=%d segment_size=%d (need >= 1, multiple of %d)" % (segs, size, ALIGN))
                if lo % ALIGN:
                    return (i, "misaligned chunk start %d (not a multiple of %d)" % (lo, ALIGN))
            if lo > covered:
                return (i, "gap: [%d, %d) is never handed out" % (covered, lo))
            if lo < covered:
                return (i, "overlap: chunk starts at %d but [%d, %d) was already handed out" % (lo, lo, covered))
            if kind == "lbp2" and hi > limit:
                return (i, "chunk [%d, %d) exceeds the limit %d" % (lo, hi, limit))
            if hi <= lo:
                return (i, "no progress: empty chunk [%d, %d)" % (lo, hi))
            covered = hi
            held[w] = (lo, hi)
            nchunks += 1
        else:
            if covered < limit:
                return (i, "premature stop: request answered false although [%d, %d) was not handed out" % (covered, limit))
            stopped = True
    bound = (limit - start + ALIGN - 1) // ALIGN if kind != "lbp2" else limit - start
    if nchunks > max(bound, 0):
        return (len(tr["events"]), "%d chunks handed out, more than the bound %d" % (nchunks, bound))
    if nchunks != tr["nchunks"]:
        return (len(tr["events"]), "harness counted %d chunks, trace has %d" % (tr["nchunks"], nchunks))
    if tr["complete"]:
        if covered != max(limit, start):
            return (len(tr["events"]), "range not covered at the end: [%d, %d) missing" % (covered, limit))
        if held:
            return (len(tr["events"]), "complete history with a worker still holding a chunk")
        want = contrib(start, max(limit, start), zthr)
        if tr["total"] != want:
            return (len(tr["events"]), "sum: accumulated %d, f[start,limit) = %d" % (tr["total"], want))
    if kind != "lbs2":
        for c in held.values():        # history cut at the cap: the harness lets the holders finish
            acc += contrib(*c, zthr)
    if tr["total"] != acc:
        return (len(tr["events"]), "sum: accumulated %d differs from the sum of the returned chunks %d" % (tr["total"], acc))
    return None


# --------------------------------------------------------------------------- streams
def coverage(tr, cov):
    """which adaptive branches a history went through (proxies computed from the recorded answers)"""
    kind = tr["kind"]
    prev = None
    for e in tr["events"]:
        if kind == "lbs2":
            if e["tsegs"] >= 1 and e["osegs"] == 2 * e["tsegs"]:
                cov["s2 segments doubled"] = cov.get("s2 segments doubled", 0) + 1
            elif e["tsegs"] >= 1 and e["osegs"] < e["tsegs"]:
                cov["s2 segments reduced"] = cov.get("s2 segments reduced", 0) + 1
            elif e["tsegs"] >= 1 and e["osegs"] not in (e["tsegs"], 2 * e["tsegs"]):
                cov["s2 segments scaled by factor"] = cov.get("s2 segments scaled by factor", 0) + 1
            if prev is not None and e["osize"] > prev:
                k = "s2 size grown below L1" if prev < 131072 * 30 else ("s2 size grown L1..L2" if prev < 1048576 * 30 else "s2 size = sqrt(high)")
                cov[k] = cov.get(k, 0) + 1
            prev = e["osize"]
        elif kind == "lbac":
            if e["work"] and prev is not None:
                if e["osize"] > prev[0]:
                    cov["ac size doubled"] = cov.get("ac size doubled", 0) + 1
                if e["osegs"] > prev[1]:
                    cov["ac segments doubled"] = cov.get("ac segments doubled", 0) + 1
            if e["work"]:
                prev = (e["osize"], e["osegs"])
        else:
            if e["work"]:
                d = e["high"] - e["low"]
                if prev is not None and d < prev and e["high"] < tr["limit"]:
                    cov["p2 dist reduced near the end"] = cov.get("p2 dist reduced near the end", 0) + 1
                if prev is not None and d > prev:
                    cov["p2 dist raised (low^(2/3))"] = cov.get("p2 dist raised (low^(2/3))", 0) + 1
                if e["high"] == tr["limit"]:
                    cov["p2 last chunk"] = cov.get("p2 last chunk", 0) + 1
                prev = d


def make_stream(name, ops, timeout=600, ctx=None):
    cov = {}
    if ctx is not None:
        ctx.res.extra.setdefault("branch_coverage", {})[name] = cov

    def mops(ops_, impl):
        TRACES[name] = list(zip(ops_, impl))
        return [model_op(o, r) for o, r in zip(ops_, impl)]

    def judge(ops_, impl, mo, model):
        dis = []
        for i, (o, r, m) in enumerate(zip(ops_, impl, model)):
            if r in ("HANG", "CRASH", "SKIPPED"):
                continue
            tr = parse_trace(o, r)
            if tr is None:
                dis.append(dict(index=i, op=o, impl=r[:300], model=m[:300], why="harness did not produce a trace"))
                continue
            coverage(tr, cov)
            f = m.split()
            if len(f) != 5 or f[0] != "ok":
                dis.append(dict(index=i, op=o, impl=r[:300] + " ...", model=m[:400], why="history rejected by the model"))
                continue
            n, lo, hi, sm = map(int, f[1:])
            bad = None
            if n != tr["nchunks"]:
                bad = "chunk count: harness %d, model %d" % (tr["nchunks"], n)
            elif sm != tr["total"]:
                bad = "sum: harness %d, model %d" % (tr["total"], sm)
            elif lo != tr["start"]:
                bad = "start: harness %d, model %d" % (tr["start"], lo)
            elif tr["complete"] and hi != max(tr["limit"], tr["start"]):
                bad = "complete history covers up to %d, limit %d" % (hi, tr["limit"])
            elif tr["complete"] and sm != contrib(tr["start"], max(tr["limit"], tr["start"]), tr["zthr"]):
                bad = "complete history: sum %d is not f[start,limit)" % sm
            if bad:
                dis.append(dict(index=i, op=o, impl=r[:300] + " ...", model=m[:400], why=bad))
        return dis

    def nontrivial(op, res):
        t = res.split(" ", 4)
        return op if len(t) > 3 and t[0] == "T" and t[2].isdigit() and int(t[2]) >= 2 else None

    def classify(op, res):
        t = res.split(" ", 6)
        if len(t) < 5 or t[0] != "T":
            return "no-trace"
        n = int(t[2])
        size = "1" if n <= 1 else ("2-9" if n < 10 else ("10-99" if n < 100 else "100+"))
        return "%s chunks=%s %s" % (op.split()[0], size, "complete" if t[4] == "1" else "capped")
    return Stream(name, ops, oracle=False, model_ops=mops, judge=judge, nontrivial=nontrivial, classify=classify,
                  timeout=timeout)


def streams(ctx):
    rng = ctx.rng
    n = 1000 if ctx.quick else 10000
    cap = 1500 if ctx.quick else 6000
    s2x, p2x, acx = exhaustive_ops(ctx)
    s2 = [s2_op(rng, cap, False) for _ in range(n)] + [s2_op(rng, cap, True) for _ in range(n // 2)]
    p2 = [p2_op(rng, cap, False) for _ in range(n)] + [p2_op(rng, cap, True) for _ in range(n // 2)]
    ac = [ac_op(rng, cap, False) for _ in range(n)] + [ac_op(rng, cap, True) for _ in range(n // 2)]
    return [make_stream("lbs2-exhaustive-small(validation)", s2x, ctx=ctx),
            make_stream("lbp2-exhaustive-small(validation)", p2x, ctx=ctx),
            make_stream("lbac-exhaustive-small(validation)", acx, ctx=ctx),
            make_stream("lbs2-random", s2, ctx=ctx), make_stream("lbp2-random", p2, ctx=ctx),
            make_stream("lbac-random", ac, ctx=ctx)]


def generated_obligations():
    return 8          # PcGen/LbConstObl.lean


# --------------------------------------------------------------------------- on break
def shorten(trace_line, idx, maxlen=6000):
    if len(trace_line) <= maxlen:
        return trace_line
    t = trace_line.split()
    head = 6 if t and t[0] == "T" else 0
    keep = t[:head + min(len(t) - head, idx + 3)]
    s = " ".join(keep)
    return s if len(s) <= 4 * maxlen else s[:4 * maxlen] + " ..."


def search(ctx, proof_broken, bad, disagreements):
    """Rejected trace / broken proof -> evaluate the property (L1 monitor) on the implementation traces."""
    reported = 0
    found = 0
    mine = [d for d in disagreements if d.get("stream", "").startswith("lb")]
    others = [d for d in disagreements if d not in mine]
    # 1. traces the model rejected (or whose totals differ)
    for d in mine:
        if d.get("crash") or d.get("model_crash"):
            if reported < 6:
                emit_violation(ctx, "correspondence", "stream %s: %s" % (d["stream"], d.get("impl", "")[:200]),
                               dict(failing_input=d["op"] if d.get("crash") else None, broken="stream " + d["stream"],
                                    op=d["op"], impl=d.get("impl"), model=d.get("model")))
                reported += 1
            continue
        trl = dict(TRACES.get(d["stream"], [])).get(d["op"])
        tr = parse_trace(d["op"], trl) if trl else None
        mon = monitor(tr) if tr else None
        if mon is not None:
            found += 1
            if reported < 6:
                emit_violation(ctx, "monitor", "stream %s: %s at event %d (model: %s)" % (d["stream"], mon[1], mon[0], d["model"][:200]),
                               dict(failing_input=dict(op=d["op"], trace=shorten(trl, mon[0])), event=mon[0], what=mon[1],
                                    model=d["model"], stream=d["stream"],
                                    replay_hint="echo '%s' | <cache>/rel/pcharness  reproduces the trace" % d["op"]))
                reported += 1
    # 2. proof / obligation broken: the model may follow a changed constant, so look at every recorded trace
    if (proof_broken or bad) and found == 0:
        for name, lst in TRACES.items():
            for (o, r) in lst:
                tr = parse_trace(o, r)
                mon = monitor(tr) if tr else None
                if mon is not None:
                    found += 1
                    if reported < 6:
                        emit_violation(ctx, "monitor", "stream %s: %s at event %d (proof broken: %s)" % (name, mon[1], mon[0], (proof_broken or bad[0])[:200]),
                                       dict(failing_input=dict(op=o, trace=shorten(r, mon[0])), event=mon[0], what=mon[1], stream=name,
                                            broken=(proof_broken or bad[0]).split("\n")[0]))
                        reported += 1
                    break
            if found:
                break
    # 3. whatever is left is reported without failing input
    if found == 0:
        for d in mine[:5]:
            if d.get("crash") or d.get("model_crash"):
                continue
            emit_violation(ctx, "correspondence", "stream %s: %s; the L1 monitor (partition/alignment/progress/stop/sum) passes on this trace"
                           % (d["stream"], d.get("why", "model and implementation differ")),
                           dict(failing_input=None, broken="trace acceptor, stream " + d["stream"], op=d["op"],
                                model=d["model"], impl=d["impl"]))
    if proof_broken and found == 0:
        emit_violation(ctx, "proof", proof_broken, dict(failing_input=None, broken=proof_broken.split("\n")[0]))
    elif proof_broken:
        ctx.res.notes.append("proof broken: " + proof_broken.split("\n")[0])
    for b in bad:
        emit_violation(ctx, "audit", b, dict(failing_input=None, broken=b))
    for d in others[:5]:
        emit_violation(ctx, "correspondence", "stream %s: model and implementation differ" % d["stream"],
                       dict(failing_input=None, broken="stream " + d["stream"], op=d["op"], model=d["model"], impl=d["impl"]))
    return True
