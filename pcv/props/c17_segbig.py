"""C17 — SegmentedPiTable where the prefix counts exceed 32 bits (positions above the 2^32-th prime 104484802057, i.e. the
tables Gourdon's A + C use for x >= 1.09e22): fresh segments, O(1) carry-over across the boundary, a segment reached backwards.
Far beyond the sieve oracle, so the expected answers are `pi(low0 - 1)` (from the implementation's 64-bit pi) plus increments
counted by the PROVED window sieve (seeded change C17-c narrowed `pi_t::count` to uint32_t: invisible below that position)."""
from ..runner import Stream

RULE = ("walks of 3-12 segments (sizes 240·k, k in 1..40, consecutive / gapped / backwards) starting 0..20000 below the 2^32-th prime and at "
        "two random positions in [1.05e11, 4e11], 8 lookups per segment incl. low, high-1 and the words around the boundary; distinct = op lines")
TRUSTED = ["base = pi(low0 - 1) is the implementation's 64-bit pi (C01 judges it); every increment is a proved window count"]
ASSUMPTIONS = ["positions <= 4e11 (window sieve with wheel base candidates up to 6.4e5)"]

P32 = 104484802057     # the 2^32-th prime


def streams(ctx):
    rng = ctx.rng
    ops = []
    starts = [P32 - rng.randint(0, 20000) for _ in range(3 if ctx.quick else 20)] + \
             [rng.randint(105 * 10 ** 9, 4 * 10 ** 11) for _ in range(2 if ctx.quick else 20)]
    for s0 in starts:
        low0 = s0 - s0 % 240
        toks, low = [], low0
        nseg = rng.randint(3, 12)
        segs = []
        for _ in range(nseg):
            size = 240 * rng.randint(1, 40)
            if rng.random() < 0.2:
                low += 240 * rng.randint(1, 5)          # a gap: fresh pi(low - 1)
            segs.append((low, low + size))
            low += size
        if rng.random() < 0.5 and len(segs) > 2:
            segs.append(segs[0])                          # backwards to the first segment
        for lo, hi in segs:
            toks.append("%d:%d" % (lo, hi))
            qs = {lo, hi - 1, lo + 239, min(hi - 1, lo + 240)} | {rng.randint(lo, hi - 1) for _ in range(4)}
            if lo <= P32 < hi:
                qs |= {P32 - 1, P32, min(hi - 1, P32 + 23)}
            toks += [str(q) for q in sorted(qs)]
        ops.append("pi64 %d" % (low0 - 1))
        ops.append("segpi " + " ".join(toks))

    def mops(ops_, impl):
        out = []
        for i, o in enumerate(ops_):
            if o.startswith("segpi ") and i > 0 and impl[i - 1].isdigit():
                low0 = int(ops_[i - 1].split()[1]) + 1
                out.append("segpi_rel %s %d %s" % (impl[i - 1], low0, o.split(" ", 1)[1]))
            else:
                out.append("# " + o)
        return out

    def judge(ops_, impl, mo, model):
        dis = []
        for i, o in enumerate(ops_):
            if o.startswith("segpi ") and impl[i] != model[i]:
                dis.append(dict(index=i, op=o, impl=impl[i][:600], model=model[i][:600]))
        return dis

    return [Stream("segpi-counts-beyond-2^32", ops, oracle=True, model_ops=mops, judge=judge, timeout=1200,
                   env={"PCV_OP_TIMEOUT": "120"}, classify=lambda o, r: o.split()[0])]
