"""C18 (WP close3, item 4): `ParallelSieve::sieve()` at stop = 2^64-1 — the interval arithmetic around the `align(start) + 1` wrap.

Mirror stream (oracle=False): the REAL idealNumThreads / getThreadDistance / align (harness op `psintervals`, which writes `numThreads_`
directly, bypassing the hardware_concurrency clamp of setNumThreads) against the model `Pc.It.parIntervals` on
  * (the two loop statements `start = align(start) + 1` / the guard are the harness' own copy of ParallelSieve.cpp:135-136, pinned by the text obligation)
  * thread counts on both sides of the proved bound 27 709 467 (PcProps/C18ClosedTop.lean `parallel_count_total_umax`), with `start` built so that the
    last task is 1..40 long (the wrap needs `(dist-1) % threadDist < 32`): the model and the real arithmetic must agree also where both wrap to
    `0:18446744073709551615`;
  * realistic thread counts (1..4096) with random and structured starts at stop in {2^64-1, 2^64-2}: no interval may start at 0 unless start = 0.
"""
from ..runner import Stream

UMAX = 2 ** 64 - 1
ISQ = 4294967295
THR = ISQ // 5
WITNESS = "psintervals 18422941821390992413 18446744073709551615 27709468"


def _td(dist, t):
    bal = (ISQ * 200) % 2 ** 64
    f = min(bal, dist // t)
    it = max((dist // f // t) * t, t)
    td = max((dist - 1) // it + 1, 10 ** 7)
    return (td + (30 - td % 30)) % 2 ** 64


def top_ops(ctx):
    rng, q = ctx.rng, ctx.quick
    ops = [WITNESS]
    # thread counts around the bound: start such that the last task has length L (when the parameters admit it)
    for t in (2, 16, 4096, 10 ** 6, 27709465, 27709466, 27709467, 27709468, 27709469, 27709470, 28 * 10 ** 6, 10 ** 8, 2 ** 31 - 1):
        base = (THR // 30) * 30
        for _ in range(4 if q else 40):
            td = base + 30 * rng.randint(0, 100)
            L = rng.choice((1, 2, 31, 32, 33, 40))
            dist = (t - 1) * td + L
            if 0 < dist <= UMAX:
                ops.append("psintervals %d %d %d" % (UMAX - dist, UMAX, t))
            if 0 < dist <= UMAX - 1:
                ops.append("psintervals %d %d %d" % (UMAX - 1 - dist, UMAX - 1, t))
    # realistic thread counts, stop at the top
    for _ in range(200 if q else 4000):
        t = rng.choice((1, 2, 3, 4, 7, 8, 16, 64, 128, 1024, 4096))
        k = rng.random()
        if k < 0.3:
            a = rng.randint(0, UMAX)
        elif k < 0.6:
            a = UMAX - rng.randint(1, 10 ** 13)
        else:
            a = UMAX - (t * rng.randint(THR - 50, THR + 50) + rng.randint(-40, 40))
        ops.append("psintervals %d %d %d" % (max(a, 0), rng.choice((UMAX, UMAX, UMAX - 1)), t))
    return ops


def _classify(o, r):
    t = int(o.split()[3])
    wrapped = any(iv.startswith("0:") for iv in r.split()[1:]) and o.split()[1] != "0"
    return ("threads>27709467" if t > 27709467 else "threads<=27709467") + (":WRAP" if wrapped else "")


def streams(ctx):
    return [Stream("ps-intervals-top", top_ops(ctx), oracle=False, classify=_classify)]
