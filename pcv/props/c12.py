"""C12 — integer roots exact; derived parameters in range."""
from ..runner import Stream
from .. import params_streams

EXTRA_MODULES = ["C12Params"]

RULE = ("isqrt/iroot/ct_sqrt ops at k^n-1,k^n,k^n+1 around powers of two and ten, rounding cliffs 2^53/2^106, "
        "2^126.., type maxima, plus seeded log-uniform random points; distinct = distinct (op,type,x) with x > 3")
TRUSTED = ["L2 model of isqrt/iroot = loops over exact naturals from an arbitrary estimate; the C++ double estimate "
           "is NOT reasoned about (theorems hold for every estimate)",
           "harness ops_roots.cpp calls the real header-only templates"]
ASSUMPTIONS = ["argument 0 <= x <= max(T) (negative x is undefined for isqrt: sqrt of a negative double)"]

TYPES = {"i64": 2**63 - 1, "u64": 2**64 - 1, "i128": 2**127 - 1, "u128": 2**128 - 1}


def interesting(maxv, rng, nrand):
    xs = set([0, 1, 2, 3, 4, maxv, maxv - 1])
    for n in (2, 3, 4, 6):
        ks = set()
        for e in range(1, 129):
            ks.update([2**e - 1, 2**e, 2**e + 1])
        for e in range(1, 39):
            ks.update([10**e - 1, 10**e, 10**e + 1])
        for k in ks:
            v = k**n
            if v - 1 <= maxv:
                for d in (-1, 0, 1):
                    if 0 <= v + d <= maxv:
                        xs.add(v + d)
    for e in (53, 106, 126, 127):
        for d in range(-3, 4):
            v = 2**e + d
            if 0 <= v <= maxv:
                xs.add(v)
    # squares of numbers whose double estimate is off: (2^53+odd)^2
    for j in range(1, 40, 2):
        for b in (2**53 + j, 2**60 + j, 2**63 + j, 3 * 2**61 + j):
            for d in (-1, 0, 1):
                v = b * b + d
                if 0 <= v <= maxv:
                    xs.add(v)
    bits = maxv.bit_length()
    for _ in range(nrand):
        b = rng.randint(1, bits)
        v = rng.getrandbits(b)
        if rng.random() < 0.3:
            r = int(v ** 0.5)
            v = r * r + rng.choice((-1, 0, 1))
        if 0 <= v <= maxv:
            xs.add(v)
    return sorted(xs)


def streams(ctx):
    nrand = 3000 if ctx.quick else 200000
    ops = []
    for ty, maxv in TYPES.items():
        xs = interesting(maxv, ctx.rng, nrand)
        for x in xs:
            ops.append("isqrt_%s %d" % (ty, x))
        for n in (3, 4, 6):
            for x in xs[::2 if ctx.quick else 1]:
                ops.append("iroot%d %s %d" % (n, ty, x))
    for x in interesting(2**63 - 1, ctx.rng, 200)[:: 3]:
        ops.append("ctsqrt_i64 %d" % x)
    for x in interesting(2**127 - 1, ctx.rng, 200)[:: 3]:
        ops.append("ctsqrt_i128 %d" % x)
    # helpers
    for _ in range(500 if ctx.quick else 20000):
        a = ctx.rng.getrandbits(ctx.rng.randint(1, 62))
        b = ctx.rng.getrandbits(ctx.rng.randint(1, 40)) + 1
        ops.append("ceil_div %d %d" % (a, b))
        ops.append("ilog2 %d" % (a - 5))
        ops.append("next_pow2 %d" % a)
        t = ctx.rng.choice([-5, 0, 1, 2, 7, 16, 64, 1000, 2**31 - 1])
        ops.append("ideal_threads %d %d %d" % (a - 3, t, ctx.rng.choice([-1, 0, 1, 100, 10**6, 10**7, b])))
        ops.append("ideal_threads %d %d %d" % (2**63 - 1 - ctx.rng.choice([0, 1, 10**10 - 2, 10**10 - 1, 10**10, a % 10**11]), t,
                                               ctx.rng.choice([1, 100, 10**6, 10**10, 2**62, 2**63 - 1])))
        lo, x, hi = [ctx.rng.randint(-10, 10) for _ in range(3)]
        ops.append("in_between %d %d %d" % (lo, x, hi))

    def nontrivial(op, res):
        p = op.split()
        return op if int(p[-1]) > 3 or p[0] in ("in_between", "ideal_threads") else None

    def classify(op, res):
        return op.split()[0]
    return [Stream("roots", ops, oracle=True, nontrivial=nontrivial, classify=classify, timeout=120)] + params_streams.c12_streams(ctx)


search = params_streams.params_search
