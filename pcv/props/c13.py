"""C13 — every textual input is either evaluated exactly or rejected (to_maxint / calculator.hpp).

Streams (all strings <= 200 bytes, hex-encoded on the wire):
  toi     grammar-based expressions, digit strings around the pre-check limit, byte-level mutations of valid
          strings and a malformed stream, evaluated by the real `to_maxint` and by the Lean model `toMaxint`
          (= the checked evaluator for which `Pc.C13.calc_sound` is proved) -> oracle stream.
  toiref  the same call against an INDEPENDENT precedence-climbing parser of the documented operator table
          (validation of "the tree of the shift/reduce loop = the documented grammar"; not an oracle).
  pistr   `primecount::pi(const std::string&)` on expressions with small values, against pi by a sieve.
"""
import os

from .. import core
from ..runner import Stream, emit_violation

RULE = ("seeded grammar-based generator (decimal, hex, e-notation, | & << >> + - * / % ** ^ ~, parentheses, C-locale "
        "whitespace, leading zeros, signs; values around 2^63, 2^64, 2^127, 2^128, 10^31; shift counts around "
        "64/127/128/200; nesting <= 50) + byte-level mutations of valid strings + malformed strings + digit strings "
        "around 2^127-1; distinct = distinct strings; classes = result kinds of the implementation")
TRUSTED = [
    "L2 model PcModel/Calc.lean mirrors calculator.hpp (after fixes/fix_calculator.diff) and util.cpp:to_maxint by hand; "
    "tied to the code by the sampled correspondence stream `toi` (byte-identical result or error class)",
    "the C++ overflow predicates of the repair (CERT INT32-C style comparisons) are modelled by their meaning "
    "'exact result outside [-2^127, 2^127)'; boundary cases are in the stream",
    "std::isspace / std::tolower in the \"C\" locale (bytes >= 0x80 are neither space nor 'x': glibc table)",
    "`>>` of a negative int128 is an arithmetic shift (implementation-defined before C++20; GCC/Clang behaviour)",
    "harness ops_calc.cpp calls the real primecount::to_maxint / primecount::pi(const std::string&)",
]
VARIANTS = ["rel", "san"]


def generated_obligations():
    """PcGen/CalcOpsObl.lean: calcOpTable_ok, calcOp_default (operator table extracted from parseOp's switch)"""
    # + PcGen/CliOptObl.lean: 13 obligations (option table, enumerators, both switches, pinned texts of 7 functions)
    return 2 + 13


ASSUMPTIONS = ["HAVE_INT128_T build (maxint_t = int128_t)", "input strings up to 200 bytes in the streams; theorems hold for all byte lists"]

SPACES = [" ", " ", " ", "\t", "\n", "\v", "\f", "\r", "  "]
BINOPS = ["|", "&", "<<", ">>", "+", "-", "*", "/", "%", "**", "^", "e", "E"]
SPECIAL = [2**63, 2**64, 2**127, 2**128, 10**31, 2**31, 2**32, 2**62, 2**126, 10**18, 10**19, 10**38, 10**39]
SHIFTS = [0, 1, 2, 31, 32, 62, 63, 64, 65, 126, 127, 128, 129, 199, 200, 255, 256]
MAXS = "170141183460469231731687303715884105727"


def hexs(b):
    return b.hex() if b else "-"


def unhexs(h):
    return b"" if h == "-" else bytes.fromhex(h)


class Gen:
    def __init__(self, rng):
        self.r = rng

    def sp(self):
        return self.r.choice(SPACES) if self.r.random() < 0.25 else ""

    def number(self, small=False):
        r = self.r
        k = r.random()
        if small or k < 0.35:
            v = r.choice([0, 1, 2, 3, 7, 10, 16, 100, 255, 1000, r.randint(0, 99), r.randint(0, 10**6)])
        elif k < 0.75:
            v = r.choice(SPECIAL) + r.choice([-2, -1, 0, 0, 1, 2, 100])
        elif k < 0.85:
            v = r.getrandbits(r.randint(1, 130))
        else:
            v = r.choice(SHIFTS)
        f = r.random()
        if f < 0.25:
            h = "%x" % v
            if r.random() < 0.5:
                h = "".join(c.upper() if r.random() < 0.5 else c for c in h)
            return r.choice(["0x", "0X"]) + ("0" * r.randint(0, 3) if r.random() < 0.2 else "") + h
        s = str(v)
        if f < 0.35:
            s = "0" * r.randint(1, 4) + s
        return s

    def expr(self, depth, small=False):
        r = self.r
        k = r.random()
        if depth <= 0 or k < 0.22:
            return self.sp() + self.number(small)
        if k < 0.32:
            return self.sp() + r.choice(["-", "+", "~", "-", "~"]) + self.expr(depth - 1, small)
        if k < 0.47:
            return self.sp() + "(" + self.expr(depth - 1, small) + self.sp() + ")"
        op = r.choice(BINOPS)
        a = self.expr(depth - 1, small)
        if op in ("<<", ">>") and r.random() < 0.8:
            b = self.sp() + str(r.choice(SHIFTS) + r.choice([0, 0, -1, 1]) if r.random() < 0.8 else r.randint(0, 130))
            if b.strip().startswith("-"):
                b = " 0" + b.strip()
        elif op in ("**", "^") and r.random() < 0.8:
            b = self.sp() + str(r.choice([0, 1, 2, 3, 7, 31, 32, 62, 63, 64, 126, 127, 128, 129, r.randint(0, 140)]))
        elif op in ("e", "E") and r.random() < 0.8:
            b = self.sp() + str(r.choice([0, 1, 2, 18, 19, 25, 30, 31, 37, 38, 39, 40, r.randint(0, 45)]))
        else:
            b = self.expr(depth - 1, small)
        return a + self.sp() + op + b

    def power_form(self):
        """`2**k +- d`, `10**k`, `ken`, `1<<k` around the limits"""
        r = self.r
        d = r.choice(["", "+100", "-1", "+1", "-2", "+25", "*2", "/3", "%1000"])
        k = r.random()
        if k < 0.3:
            return "2%s%d%s" % (r.choice(["**", "^"]), r.choice([62, 63, 64, 126, 127, 128, 129, 200, 255, 256]), d)
        if k < 0.5:
            return "10%s%d%s" % (r.choice(["**", "^"]), r.choice([18, 19, 31, 38, 39, 40, 77]), d)
        if k < 0.7:
            return "%d%s%d%s" % (r.choice([1, 2, 9, 17, 170, 171]), r.choice("eE"), r.choice([18, 19, 30, 31, 36, 37, 38, 39, 40]), d)
        if k < 0.85:
            return "%d<<%d%s" % (r.choice([1, 1, 2, 3, 255]), r.choice(SHIFTS), d)
        return "-2**127%s" % r.choice(["", "/-1", "%-1", "-1", "+1", "*-1", "/1", ">>127", ">>128", "<<0", "|1", "&-1"])

    def nested(self):
        r = self.r
        n = r.randint(5, 50)
        k = r.random()
        core_ = self.expr(2, small=True)
        if k < 0.4:
            return "(" * n + core_ + ")" * n
        if k < 0.7:
            return "".join(r.choice(["-", "~", "+", "-(", "~("]) for _ in range(n)).replace("(", "") + core_
        s = core_
        for _ in range(min(n, 25)):
            s = "(" + s + r.choice(["+1)", "*1)", "|0)", ")", "-0)"])
        return s

    def digits(self):
        r = self.r
        k = r.random()
        if k < 0.3:
            v = 2**127 - 1 + r.choice([-2, -1, 0, 1, 2, 10, 10**38])
            s = str(v)
        elif k < 0.5:
            s = "".join(r.choice("0123456789") for _ in range(r.choice([1, 5, 19, 20, 38, 39, 39, 39, 40, 41, 60])))
        elif k < 0.7:
            # same length as the limit, differing from it at one position
            i = r.randrange(39)
            s = MAXS[:i] + r.choice("0123456789") + "".join(r.choice("0123456789") for _ in range(38 - i))
        else:
            s = str(r.getrandbits(r.randint(1, 130)))
        if r.random() < 0.3:
            s = "0" * r.randint(1, 30) + s
        return s


PALETTE = list(b"0123456789abcdefxXeE()+-*/%^~|&<> \t\n\v\f\r") + [0, 0x80, 0xff, ord("g"), ord("."), ord(","), ord("_"), 0xa0, 0x85]


def mutate(rng, s):
    b = bytearray(s)
    for _ in range(rng.choice([1, 1, 1, 2, 3])):
        k = rng.random()
        pos = rng.randrange(len(b) + 1)
        if k < 0.35 and pos < len(b):
            b[pos] = rng.choice(PALETTE)
        elif k < 0.65:
            b.insert(pos, rng.choice(PALETTE))
        elif k < 0.85 and pos < len(b):
            del b[pos]
        elif len(b) >= 2:
            i, j = sorted((rng.randrange(len(b)), rng.randrange(len(b))))
            b = b[:i] + b[j:] if rng.random() < 0.5 else b[:j] + b[i:j] + b[j:]
    return bytes(b)


MALFORMED = ["", " ", "\t\n", "(", ")", "()", "( )", "1+", "+", "-", "~", "1 2", "0x", "0X", "0xg", "0x 1", "1<2", "1>", "1<",
             "1<<", "1>>", "1< <2", "((1)", "(1))", "1)", "--1", "1//2", "1e", "e5", "E", "**2", "1***2", "1****2", "1 ~ 2",
             "0x1.5", "1.5", "1,000", "1_000", "1e+5", "1e-5", "1e 5", "1 e5", "0x1e5", "0xe", "0e0", "0x0x1", "00x1", "1x",
             "x", "0b11", "1=1", "1!", "2^^2", "2^ ^2", "2* *2", "2 ** 3", "2 * * 3", "(1)(2)", "1(2)", "(1)2", "1 (2)",
             "\x00", "1\x00", "1\x00+1", "\x801", "1\xff", "\xa01", "1\xa0", "\x85 1", "1/0", "1%0", "1/(1-1)", "0/0", "1/0)",
             "(1/0", "1/0+", "2**128+", "5/", "5%", "1<<(", "1|", "1&", "|1", "&1", "*1", "/1", "%1", "^1", "<<1", ">>1",
             "1 +", "1 -", "1 ~", "~~", "+-+-", "9" * 200, "(" * 100 + "1" + ")" * 100, "1+" * 99 + "1"]


def build_ops(ctx):
    rng = ctx.rng
    g = Gen(rng)
    q = ctx.quick
    n_expr, n_small, n_pow, n_nest, n_dig, n_mut, n_rand = (
        (2500, 1500, 600, 250, 700, 2500, 400) if q else (60000, 30000, 8000, 3000, 10000, 60000, 8000))
    strs, valid = [], []

    def add(s):
        b = s if isinstance(s, bytes) else s.encode("latin-1")
        if len(b) <= 200:
            strs.append(b)
            return b
        return None

    for s in ["2**128+100", "1e39", "2**127", "2**127-1", "-2**127", "0x100000000000000000000000000000064", "1<<200",
              "2**-1", "1e-1", "-2**127/-1", "-2**127%-1", MAXS, str(2**127), "0x7fffffffffffffffffffffffffffffff",
              "0x80000000000000000000000000000000", "1e38", "2^126-1+2^126", "5>>127", "5>>128", "1<<126", "1<<127", "-1<<1",
              "-1>>1", "~0", "-(2**2**2**2)", "(0 + ~(0xDF234 & 1000) *3) /-2", "5*-(2**(9+7))/3+5*(1 & 0xFf123)", "-3**2",
              "2**3**2", "2^3^2", "100/7/2", "100-7-2", "2e3e0", "2**3e0", "7%-3", "-7%3", "-7/2", "7/-2", "1e0x10", "0x1e+1",
              "1|2&3", "1<<2+3", "1+2<<3", "-5|3", "-5&3", "~5|~3", "~-1"]:
        add(s)
    for _ in range(n_expr):
        b = add(g.expr(rng.randint(1, 5)))
        if b:
            valid.append(b)
    for _ in range(n_small):
        b = add(g.expr(rng.randint(1, 6), small=True))
        if b:
            valid.append(b)
    for _ in range(n_pow):
        b = add(g.power_form())
        if b:
            valid.append(b)
    for _ in range(n_nest):
        b = add(g.nested())
        if b:
            valid.append(b)
    for _ in range(n_dig):
        add(g.digits())
    for _ in range(n_mut):
        add(mutate(rng, rng.choice(valid)))
    for s in MALFORMED:
        add(s)
    for _ in range(n_rand):
        add(bytes(rng.choice(PALETTE) for _ in range(rng.randint(1, 12))))
    return strs, valid


def kind(res):
    if res.startswith("ERR") or res in ("HANG", "CRASH", "TRAP", "SKIPPED", "BIG"):
        return res
    return "value<0" if res.startswith("-") else ("value>=2^64" if len(res) > 19 and int(res) >= 2**64 else "value")


def streams(ctx):
    strs, valid = build_ops(ctx)
    seen, uniq = set(), []
    for b in strs:
        if b not in seen:
            seen.add(b)
            uniq.append(b)
    toi = ["toi " + hexs(b) for b in uniq]
    ref = ["toiref " + hexs(b) for b in uniq[:: 2 if ctx.quick else 1]]
    small = []
    g = Gen(ctx.rng)
    for _ in range(300 if ctx.quick else 5000):
        small.append(g.expr(ctx.rng.randint(1, 4), small=True).encode("latin-1"))
    small += [b"1e5", b"10**5", b"2**128+100", b"1e39", b"0x100000000000000000000000000000064", b"-5", b"2**-1", b"1<<200",
              b"100", b"0", b"2", b" 1e3 ", b"3*(1<<4)", b"1/0", b"(", b"00100", MAXS.encode(), str(2**127).encode()]
    pistr = ["pistr " + hexs(b) for b in small if len(b) <= 200]

    def classify(op, res):
        return kind(res)
    sts = [Stream("toi", toi, oracle=True, classify=classify, timeout=300),
           Stream("toiref", ref, oracle=False, classify=classify, timeout=300),
           Stream("pistr", pistr, oracle=True, classify=classify, timeout=300),
           # the same strings on the ASan+UBSan build: an undefined shift / signed overflow in the calculator aborts (CRASH)
           Stream("toi-san", toi, oracle=True, classify=classify, variant="san", timeout=600)]
    if not repaired():
        # pinned tree: additionally tie the wrap-around model `calcWrap` (theorem f2_unrepaired_unsound) to the binary
        def judge(ops, impl, mops, model):
            return [dict(index=i, op=o, impl=a, model=b) for i, (o, a, b) in enumerate(zip(ops, impl, model))
                    if a != b and b != "TRAP"]
        sts.append(Stream("toiwrap", ["toiwrap " + hexs(b) for b in uniq], oracle=False, judge=judge, classify=classify, timeout=300))
        ctx.res.notes.append("include/calculator.hpp has no overflow detection (finding F2 unrepaired): stream toiwrap compares the "
                             "binary with the wrap-around model; strings where that model executes an undefined operation (TRAP) are skipped")
    cli_check(ctx, g, valid)
    cli64_check(ctx, g)
    return sts


CLI64_PI = ["--legendre", "--meissel", "--lehmer", "--lmo", "--lmo1", "--lmo2", "--lmo3", "--lmo4", "--lmo5", "--primesieve",
            "--gourdon-64", "--deleglise-rivat-64"]


def cli64_check(ctx, g):
    """`primecount <x> [<a>] --<64-bit option>` (the real executable) against the Lean op `cli64`: the options that call a
    64-bit function narrow the evaluated number with `to_int64` (src/app/main.cpp). Values are placed on both sides of
    -2^64, -2^63, 2^63, 2^64 (where an unchecked narrowing wraps to a SMALL number: finding F8) and among small numbers."""
    import subprocess
    rng = ctx.rng
    exe = os.path.join(core.ensure_build("rel"), "primecount")
    vals = []
    for base in (2 ** 63, 2 ** 64, 2 ** 65, 2 ** 100, 2 ** 126):
        for d in (-100, -1, 0, 1, 25, 100, 1000, rng.randint(2, 5000)):
            vals += [base + d, -(base + d), -(base - d)]
    vals += [0, 1, 2, 100, 1000, 5000, 99999, -1, -100, 2 ** 63 - 1, -(2 ** 63), -(2 ** 63) - 1, 2 ** 127 - 1, -(2 ** 127) + 1]
    vals += [rng.randint(0, 3000) for _ in range(10 if ctx.quick else 100)]

    def spell(v):
        k = rng.random()
        if v >= 0:
            return str(v) if k < 0.6 else ("%d+%d" % (v - 7, 7) if v >= 7 else "0+%d" % v)
        a = -v
        return ("0-%d" % a) if k < 0.5 else ("(0-%d)" % a if k < 0.75 else "1-%d" % (a + 1))

    cases = []     # (kind, [args], option)
    for v in dict.fromkeys(vals):
        sx = spell(v)
        opts = CLI64_PI if abs(v) > 2 ** 62 else [rng.choice(CLI64_PI)]
        for o in ([rng.choice(opts)] if ctx.quick and abs(v) <= 2 ** 62 else (opts[:4] if ctx.quick else opts)):
            cases.append(("pi", [sx], o))
        cases.append(("nth", [sx], "--nth-prime"))
        cases.append(("phi", [sx, str(rng.randint(0, 6))], "--phi"))
        cases.append(("phi", [str(rng.randint(1, 3000)), sx], "--phi"))
    ops = ["cli64 %s %s" % (k, " ".join(hexs(a.encode()) for a in args)) for k, args, _ in cases]
    _, model, _, _ = core.run_model("\n".join(ops) + "\n")
    if len(model) != len(ops):
        emit_violation(ctx, "internal", "cli64: model answered %d of %d ops" % (len(model), len(ops)),
                       dict(failing_input=None, broken="cli64 model op"))
        return
    classes, dis, ran, hangs = {}, [], 0, 0
    for (k, args, o), m in zip(cases, model):
        if m in ("BIG", "OPTION") or m.startswith("ERR"):
            classes[m] = classes.get(m, 0) + 1
            continue
        if hangs >= 3 or len(dis) >= 40:
            break       # enough evidence; a wrapped value usually starts a computation that never ends
        ran += 1
        try:
            p = subprocess.run([exe] + args + [o], capture_output=True, timeout=30, env=dict(os.environ, OMP_NUM_THREADS="2"))
            got = "exit=%d" % p.returncode + (" out=" + p.stdout.decode("latin-1").strip() if p.returncode == 0 else "")
        except subprocess.TimeoutExpired:
            got = "HANG"
            hangs += 1
        c = k + ":" + got.split(" ")[0]
        classes[c] = classes.get(c, 0) + 1
        if got != m:
            dis.append((k, args, o, got, m))
    ctx.res.evaluations += ran
    ctx.res.stream_stats["cli64"] = dict(ops=len(cases), executed=ran, classes=classes, disagreements=len(dis))
    ctx.res.samples.append({"stream": "cli64", "op": "primecount %s %s" % (" ".join(cases[0][1]), cases[0][2]), "model": model[0]})
    if dis:
        dis.sort(key=lambda t: (sum(len(a) for a in t[1]), t[1]))
        k, args, o, got, m = dis[0]
        cmd = "primecount %s %s" % (" ".join("'%s'" % a for a in args), o)
        emit_violation(ctx, "correspondence",
                       "cli64: %d command line(s): `%s` gives [%s]; the exact value of the argument (theorem cli64_exact: the number "
                       "handed to a 64-bit option is the value of the expression, everything outside int64 is rejected) requires [%s]" % (
                           len(dis), cmd, got, m),
                       dict(failing_input=cmd, expected=m, observed=got, stream="cli64", count=len(dis), key="cli64:" + cmd,
                            more=["primecount %s %s -> %s (expected %s)" % (" ".join(a), oo, gg, mm) for _, a, oo, gg, mm in dis[1:8]],
                            replay_hint=cmd + "; echo $?"))


def cli_check(ctx, g, valid):
    """`primecount <arg>` (the real executable, one argument) against the Lean op `clinum`: exit status and stdout.
    Arguments with option syntax (-x.., --x..) are outside the model and are not generated, except for the check that
    every key of the option table in CmdOptions.cpp is classified OPTION by the model's `isOption`."""
    import re
    import subprocess
    rng = ctx.rng
    exe = os.path.join(core.ensure_build("rel"), "primecount")
    n = 120 if ctx.quick else 1500
    args = [b"1e5", b"10**5", b"2**128+100", b"1e39", b"1e-1", b"0x100000000000000000000000000000064", b"1<<200", b"", b" ",
            b"-5", b"- 5", b"-", b"--", b"--5", b"-(5)", b"0-5", b"+5", b" 100", b"100 ", b"abc", b"e", b"(", b"1/0", b"1 2",
            b"00100", b"0x64", b"~-101", b"(100)", MAXS.encode(), str(2**127).encode(), b"-1+2", b"=5", b"x5", b"5x", b"\xff5"]
    for _ in range(n):
        k = rng.random()
        if k < 0.5:
            b = g.expr(rng.randint(1, 4), small=True).encode("latin-1")
        elif k < 0.7:
            b = mutate(rng, rng.choice(valid))
        elif k < 0.85:
            b = g.power_form().encode("latin-1")
        else:
            b = bytes(rng.choice(PALETTE) for _ in range(rng.randint(1, 8)))
        args.append(b)
    args = [b for b in dict.fromkeys(args) if b"\x00" not in b and len(b) <= 200]
    src = open(os.path.join(core.REPO, "src", "app", "CmdOptions.cpp")).read()
    keys = re.findall(r'\{ "(-[^"]+)", std::make_pair', src)
    if len(keys) < 40:
        emit_violation(ctx, "translator", "option table of CmdOptions.cpp not recognised (%d keys)" % len(keys),
                       dict(failing_input=None, broken="option table shape"))
    _, model, _, _ = core.run_model("".join("clinum %s\n" % hexs(b) for b in args + [k.encode() for k in keys]))
    bad_keys = [k for k, m in zip(keys, model[len(args):]) if m != "OPTION"]
    if bad_keys:
        emit_violation(ctx, "correspondence", "option table keys not covered by isOption: %s" % bad_keys,
                       dict(failing_input=None, broken="cli option classification"))
    classes, dis, ran = {}, [], 0
    for b, m in zip(args, model):
        if m in ("BIG", "OPTION"):
            classes[m] = classes.get(m, 0) + 1
            continue
        ran += 1
        try:
            p = subprocess.run([exe, b], capture_output=True, timeout=20, env=dict(os.environ, OMP_NUM_THREADS="2"))
            got = "exit=%d" % p.returncode + (" out=" + p.stdout.decode("latin-1").strip() if p.returncode == 0 else "")
            if p.returncode != 0 and not p.stderr.startswith(b"primecount: "):
                got += " (no message on stderr)"
        except subprocess.TimeoutExpired:
            got = "HANG"
        c = got.split(" ")[0]
        classes[c] = classes.get(c, 0) + 1
        if got != m:
            dis.append((b, got, m))
    ctx.res.evaluations += ran
    ctx.res.stream_stats["cli"] = dict(ops=len(args), executed=ran, option_keys=len(keys), classes=classes, disagreements=len(dis))
    for b in args[:3]:
        ctx.res.samples.append({"stream": "cli", "op": "primecount '%s'" % b.decode("latin-1"), "model": model[args.index(b)]})
    if dis:
        chk = core.run_model("".join("toi %s\n" % hexs(b) for b, _, _ in dis))[1]
        groups = {}
        for (b, got, m), c in zip(dis, chk):
            groups.setdefault(F2_KEYS.get(c, "other") if m == "exit=1" and (got.startswith("exit=0") or got == "HANG") else "other", []).append((b, got, m))
        for key, items in sorted(groups.items()):
            items.sort(key=lambda t: (len(t[0]), t[0]))
            b, got, m = items[0]
            text = b.decode("latin-1")
            emit_violation(ctx, "correspondence",
                           "cli class %s: %d argument(s): `primecount '%s'` gives [%s], the model of CmdOptions + checked evaluator says [%s]" % (
                               key, len(items), text, got, m),
                           dict(failing_input=text, failing_input_hex=hexs(b), expected=m, observed=got, stream="cli", count=len(items),
                                key=key if key != "other" else "cli:%s" % hexs(b), more=[t[0].decode("latin-1") for t in items[1:8]],
                                replay_hint="primecount '%s'; echo $?" % text))


def repaired():
    try:
        return "integer overflow" in open(os.path.join(core.REPO, "include", "calculator.hpp")).read()
    except OSError:
        return False


# --------------------------------------------------------------------------- on break

def _both(exe, lines):
    rc, impl, err, _ = core.run_harness(exe, "\n".join(lines) + "\n", timeout=120)
    rc2, model, err2, _ = core.run_model("\n".join(lines) + "\n", timeout=120)
    return impl, model


def shrink(exe, opname, s, keep):
    """greedy delta-debugging on bytes: keep removing spans while `keep(impl, model)` (same kind of
    disagreement) still holds"""
    cur = s
    for _ in range(40):
        cands = []
        n = len(cur)
        for size in (n // 2, n // 4, 8, 4, 2, 1):
            if size < 1:
                continue
            for i in range(0, n - size + 1, max(1, size // 2) if size > 1 else 1):
                c = cur[:i] + cur[i + size:]
                if c and c not in cands:
                    cands.append(c)
        cands = cands[:400]
        if not cands:
            break
        impl, model = _both(exe, ["%s %s" % (opname, hexs(c)) for c in cands])
        best = None
        for c, a, b in zip(cands, impl, model):
            if a != b and keep(a, b) and (best is None or len(c) < len(best)):
                best = c
        if best is None:
            break
        cur = best
    return cur


F2_KEYS = {"ERR:calc:overflow": "F2:int128-overflow-undetected", "ERR:calc:negexp": "F2b:negative-exponent-yields-1"}


def search(ctx, proof_broken, bad, dis):
    """Disagreements of the oracle streams are failing inputs of C13: report one (shrunk) string per class.

    Class keys (for KNOWN_FINDINGS.txt): the proved checked evaluator rejects the string because a value or an
    intermediate leaves int128 (`F2:int128-overflow-undetected`) or an exponent is negative
    (`F2b:negative-exponent-yields-1`), while the implementation does exactly what the wrap-around model `toiwrap` of the
    pinned calculator predicts (or executes an undefined operation, TRAP). Everything else is class `other`."""
    from ..runner import default_search
    exe = core.ensure_harness("rel")
    rest, shown = [], {}
    cand = [d for d in dis if not d.get("model_crash") and d["stream"] in ("toi", "pistr", "toiref", "toi-san")]
    rest = [d for d in dis if d not in cand]
    hexes = [d["op"].split()[1] for d in cand]
    chk = core.run_model("".join("toi %s\n" % h for h in hexes))[1] if hexes else []
    wrp = core.run_model("".join("toiwrap %s\n" % h for h in hexes))[1] if hexes else []
    wim = core.run_harness(exe, "".join("toi %s\n" % h for h in hexes))[1] if hexes else []
    for d, c, w, wi in zip(cand, chk, wrp, wim):
        s = unhexs(d["op"].split()[1])
        key = "other"
        if c in F2_KEYS and (w == wi or w == "TRAP" or d.get("crash")):
            key = F2_KEYS[c]
        if d["stream"] == "toiref" and key == "other":
            rest.append(d)
            continue
        d["_checked"] = c
        shown.setdefault(key, []).append((s, d))
    for key, items in sorted(shown.items()):
        # prefer a witness where the implementation returns a VALUE on the oracle stream `toi`, then the shortest
        items.sort(key=lambda t: (t[1]["stream"] != "toi", t[1]["impl"].startswith("ERR"), bool(t[1].get("crash")), len(t[0]), t[0]))
        s, d = items[0]
        opname = d["op"].split()[0]
        m0, isval = d["model"], not d["impl"].startswith("ERR")
        if d.get("crash"):
            small = s      # sanitizer abort / hang: reported unshrunk (each probe would cost a process)
        else:
            small = shrink(exe, opname, s, lambda a, b: b == m0 and (not a.startswith("ERR")) == isval and a not in ("HANG", "CRASH"))
        impl, model = _both(exe, ["%s %s" % (opname, hexs(small))])
        if d.get("crash"):
            impl = [d["impl"][:300]]
        text = small.decode("latin-1")
        per_stream = {}
        for _, dd in items:
            per_stream[dd["stream"]] = per_stream.get(dd["stream"], 0) + 1
        emit_violation(ctx, "correspondence",
                       "class %s: %d string(s) %s: implementation (%s) differs from the proved checked evaluator (%s)" % (
                           key, len(items), per_stream, impl[0] if impl else "?", model[0] if model else "?"),
                       dict(failing_input=text, failing_input_hex=hexs(small), expected=model[0] if model else "?",
                            observed=impl[0] if impl else "?", stream=d["stream"], count=len(items), per_stream=per_stream,
                            unshrunk=s.decode("latin-1"), key=key if key != "other" else "%s:%s" % (d["stream"], hexs(small)),
                            more=[t[0].decode("latin-1") for t in items[1:8]],
                            replay_hint="primecount '%s'   (or: echo '%s %s' | <cache>/rel/pcharness  vs  | lean/.lake/build/bin/pcdrv)" % (
                                text, opname, hexs(small))))
    if proof_broken or bad or rest:
        default_search(ctx, proof_broken, bad, rest)
    return True
