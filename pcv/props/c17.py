"""C17 — PLACEHOLDER owned by the tables package (PiTable, SegmentedPiTable, FactorTable, ...).
This copy only wires in the counting-sieve half (pcv/props/c17sieve.py) so that `./check C17` runs in the
sieve work package's tree; when merging keep the tables package's file and add
    from . import c17sieve;  streams += c17sieve.streams(ctx);  generated_obligations += c17sieve.generated_obligations()
"""
from . import c17sieve

RULE = c17sieve.RULE
TRUSTED = c17sieve.TRUSTED
ASSUMPTIONS = c17sieve.ASSUMPTIONS


def generated_obligations():
    return c17sieve.generated_obligations()


def streams(ctx):
    return c17sieve.streams(ctx)


def search(ctx, proof_broken, bad, disagreements):
    return c17sieve.search(ctx, proof_broken, bad, disagreements)
