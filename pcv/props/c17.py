"""C17 (lookup-table half) — PiTable / pi_cache_, SegmentedPiTable, FactorTable(D), generate_*,
BinaryIndexedTree answer every query exactly.  (The sieve half lives in pcv/props/c17sieve.py, merged
below when that module exists.)"""
import os
import re

from ..runner import Stream, emit_violation, default_search
from .. import core

RULE = ("tables: every x < 30720 on pi_cache; PiTable limits 0,1,5,6,7,239..241,30719..30721, +-1 around the "
        "thread split points of PiTable::init (1e7-rounded-to-240 multiples) for 1..16 (thorough: 64) requested threads, "
        "raw word dumps / hashes; SegmentedPiTable: seeded init sequences (consecutive, overlapping, backwards, gaps; "
        "starts multiples of 240) with queries and raw dumps after every init; FactorTable: EVERY y <= 300 (uint16 and "
        "uint32, F3 region 13 <= y < 169), FactorTableD every z <= 300, seeded larger, multi-thread hashes; to_index/"
        "to_number for all n <= 5000; generate_pi/lpf/moebius/mpf all n <= 300 + seeded; BinaryIndexedTree seeded op "
        "sequences. distinct = distinct op lines whose table/segment/sieve is non-empty")
TRUSTED = [
    "PROVED for all inputs on the L2 models (PcProps/C17.lean): piCache_correct, bitPiTable_lookup, piTable_ranges_disjoint, "
    "piTable_correct, segPi_correct (+ segPi_init_succeeds), ftToIndex/ftToNumber_correct, factorTable_correct (REPAIRED "
    "constructor, F3), factorTableD_correct, generatePi_correct, generateLpf_correct; generate_moebius / generate_mpf / "
    "BinaryIndexedTree are tied by the mirror AND the spec correspondence streams only (no theorem)",
    "bundled primesieve (primesieve::iterator, generate_primes): parameter `gen` of the L2 models; the theorems carry the "
    "named hypothesis PrimeGenSpec (primes of [lo, hi), increasing; discharged by C18); pcdrv instantiates it with its own "
    "segmented byte sieve",
    "pi_noprint(low-1) inside SegmentedPiTable::init: parameter `piNoprint` (hypothesis = C01)",
    "translator/dump_tables.cpp + harness/ops_tables.cpp read private/protected members by lifting access specifiers "
    "for BitSieve240.hpp, PiTable.hpp, SegmentedPiTable.hpp, Sieve.hpp, BaseFactorTable.hpp (no layout change)",
    "OpenMP: the per-thread ranges are proved disjoint and covering (piTable_ranges_disjoint; FactorTable thread split inside "
    "factorTable_correct); the model runs the threads in index order with the barrier between init_bits and init_count",
    "harness replaces global operator new/delete (malloc/free; memory preset to 0xa5 only while a FactorTable is "
    "constructed) so that never-written entries are observable deterministically",
]
ASSUMPTIONS = [
    "max_x + 1 does not wrap (max_x < 2^64 - 1) and the table fits in memory",
    "SegmentedPiTable::init is called with low < high and low % 240 == 0 (its ASSERTs); queries satisfy low <= x < high",
    "FactorTable: y <= FactorTable<T>::max() else primecount_error (modelled); generate_*: 0 <= max < 2^31",
    "BinaryIndexedTree: odd sieve positions are 0 and update() is called only for set even positions (as pi_lmo4 does)",
]

PI_CACHE_LIMIT = 128 * 240
THRESH = 10 ** 7


def generated_obligations():
    # (pcv/props/c17sieve.py accounts for its own generated obligations inside its streams())
    return _own_obligations()


def _own_obligations():
    import sys
    tdir = os.path.join(core.ROOT, "translator")
    if tdir not in sys.path:
        sys.path.insert(0, tdir)
    import extract_tables
    return extract_tables.count_obligations()


# ----------------------------------------------------------------------------------------- python mirrors
# (only used to PLACE the test points and to pinpoint witnesses; never part of a verdict)

def ideal_threads(limit, threads, thr=THRESH):
    mx = -(-limit // thr)
    if threads < 1 or mx < 1:
        return 1
    return min(threads, mx)


def pit_params(max_x, threads):
    limit = max_x + 1
    dist = limit - PI_CACHE_LIMIT
    t = ideal_threads(dist, threads)
    td = max(THRESH, dist // t)
    td += 240 - td % 240
    return t, td


COPRIME = [n for n in range(1, 2311) if all(n % q for q in (2, 3, 5, 7, 11))]


def to_number(i):
    return 2310 * (i // 480) + COPRIME[i % 480]


# ----------------------------------------------------------------------------------------------- streams

def _pit_ops(ctx):
    rng = ctx.rng
    q_ops, raw_ops, hash_ops = [], [], []
    small = [0, 1, 2, 4, 5, 6, 7, 10, 29, 30, 31, 239, 240, 241, 479, 480, 481, 1000, 2309, 2310,
             30718, 30719, 30720, 30721, 30722, 30959, 30960, 30961, 31199, 31200, 31201]
    small += [rng.randrange(0, 40000) for _ in range(12 if ctx.quick else 200)]
    thr_all = list(range(1, 17)) + [64, 0, -3]
    for k, mx in enumerate(small):
        ths = thr_all if mx in (0, 1, 239, 240, 241, 30719, 30720, 30721) else [thr_all[k % len(thr_all)], 1]
        for th in ths:
            if mx <= 2500:
                qs = list(range(0, mx + 1))
            else:
                qs = sorted(set([0, 1, 5, 6, 7, 239, 240, 241, 30719, 30720, 30721, mx - 2, mx - 1, mx] +
                                [240 * (mx // 240) + d for d in (-1, 0, 1)] +
                                [rng.randrange(0, mx + 1) for _ in range(40)]))
                qs = [q for q in qs if 0 <= q <= mx]
            q_ops.append("pit %d %d %s" % (mx, th, " ".join(map(str, qs))))
        raw_ops.append("pitraw %d %d" % (mx, ths[0]))
    # thread split points: low_t = 30720 + thread_dist * t
    big = []
    req = [2, 3, 4] if ctx.quick else list(range(2, 17))
    for th in req:
        # smallest tables that really use `th` threads: dist just above (th-1)*1e7; split of the last thread
        td = THRESH + (240 - THRESH % 240)
        split = PI_CACHE_LIMIT + td * (th - 1)
        for d in (-2, -1, 0, 1):
            big.append((split + d, th))          # max_x = split-1 -> limit = split: last thread empty
        big.append((split + 12345, th + 3))       # more threads requested than useful
    # thread_dist derived from dist / threads (above the threshold)
    for th, dist in ((2, 2 * THRESH + 4801), (3, 3 * THRESH + 7 * 240)) if ctx.quick else \
            ((2, 2 * THRESH + 4801), (3, 3 * THRESH + 7 * 240), (5, 6 * THRESH + 11), (7, 9 * THRESH + 239), (16, 16 * THRESH + 240 * 16)):
        mx = PI_CACHE_LIMIT + dist - 1
        t, td = pit_params(mx, th)
        for tt in (1, t - 1):
            split = PI_CACHE_LIMIT + td * tt
            big.append((split - 1, th))
            big.append((split, th))
        big.append((mx, th))
        big.append((mx + 240 * th, th))
        big.append((mx - 240 * th + 1, th))
    # dist = 240 * th * k + r: dist / th is ALREADY a multiple of 240 and r = dist % th numbers are left over after the
    # floor division; the round-up of thread_dist must still cover them (seeded change C17-a: top r entries uninitialised)
    for th in ((2, 3, 4) if ctx.quick else (2, 3, 4, 5, 7, 8, 16)):
        k = (th * THRESH) // (240 * th) + 1 + rng.randrange(0, 40)
        for r in sorted(set((0, 1, th - 1))):
            big.append((PI_CACHE_LIMIT + 240 * th * k + r - 1, th))
    if ctx.quick:
        big.append((PI_CACHE_LIMIT + 16 * THRESH + 5000, 16))
    else:
        big.append((PI_CACHE_LIMIT + 64 * THRESH + 5000, 64))
        for _ in range(20):
            big.append((rng.randrange(PI_CACHE_LIMIT, 5 * THRESH), rng.choice([1, 2, 3, 4, 5, 8, 16])))
    seen = set()
    for mx, th in big:
        if (mx, th) in seen:
            continue
        seen.add((mx, th))
        hash_ops.append("pithash %d %d" % (mx, th))
        t, td = pit_params(mx, th)
        qs = set([mx, mx - 1, 30719, 30720] + [mx - j for j in range(0, th + 2)])
        for tt in range(1, t + 1):
            s = PI_CACHE_LIMIT + td * tt
            qs.update([s - 1, s, s + 1, s + 239, s + 240])
        qs.update(rng.randrange(PI_CACHE_LIMIT, mx + 1) for _ in range(20))
        q_ops.append("pit %d %d %s" % (mx, th, " ".join(str(q) for q in sorted(qs) if 0 <= q <= mx)))
    return q_ops, raw_ops, hash_ops


def _seg_ops(ctx, with_raw):
    rng = ctx.rng
    ops = []
    nseq = 60 if ctx.quick else 1500
    for s in range(nseq):
        top = rng.choice([2000, 20000, 200000, 2000000])
        toks = []
        n_init = rng.randint(1, 8)
        low = 240 * rng.randrange(0, max(1, top // 240))
        prev_high = None
        for k in range(n_init):
            mode = rng.choice(["consecutive", "consecutive", "overlap", "back", "gap", "same", "zero"])
            size = rng.choice([1, 2, 5, 6, 7, 239, 240, 241, 480, 720, 1000, rng.randint(1, 5000)])
            if rng.random() < 0.5:
                size = 240 * max(1, size // 240 + (1 if size % 240 else 0))   # aligned_segment_size
            if prev_high is not None:
                if mode == "consecutive" and prev_high % 240 == 0:
                    low = prev_high
                elif mode == "overlap":
                    low = max(0, 240 * ((prev_high - rng.randint(1, 2000)) // 240))
                elif mode == "back":
                    low = max(0, low - 240 * rng.randint(1, 20))
                elif mode == "gap":
                    low = 240 * (prev_high // 240 + rng.randint(1, 30))
                elif mode == "zero":
                    low = 0
                elif mode == "same":
                    pass
                else:
                    low = 240 * (prev_high // 240 + 1) if prev_high % 240 else prev_high
            high = low + size
            toks.append("%d:%d" % (low, high))
            qs = set([low, high - 1, (low + high) // 2])
            for d in (5, 6, 7, 239, 240, 241):
                if low + d < high:
                    qs.add(low + d)
            last = 240 * ((high - 1) // 240)
            for q in (last - 1, last, last + 1):
                if low <= q < high:
                    qs.add(q)
            for _ in range(4):
                qs.add(rng.randrange(low, high))
            toks += [str(q) for q in sorted(qs)]
            if with_raw and size <= 1500:
                toks.append("r")
            prev_high = high
        ops.append("segpi " + " ".join(toks))
    # exhaustive small scope: every query of short consecutive walks
    for lo in (0, 240, 480, 30720 - 240):
        toks = []
        for j in range(3):
            a, b = lo + 240 * j, lo + 240 * (j + 1)
            toks.append("%d:%d" % (a, b))
            toks += [str(q) for q in range(a, b)]
            if with_raw:
                toks.append("r")
        ops.append("segpi " + " ".join(toks))
    return ops


def _ft_ops(ctx):
    rng = ctx.rng
    dump, dump_d, hashes = [], [], []
    for y in list(range(-2, 301)):
        for bits in (16, 32):
            dump.append("ft %d %d %d" % (y, 1 + (y % 4), bits))
    for z in range(-1, 301):
        y = rng.randint(-1, max(1, z + 3))
        dump_d.append("ftd %d %d %d %d" % (y, z, 1 + (z % 3), 16 if z % 2 else 32))
        if z % 5 == 0:
            dump_d.append("ftd %d %d 1 32" % (z, z))
    for _ in range(25 if ctx.quick else 400):
        y = rng.choice([rng.randint(300, 3000), rng.randint(3000, 60000), 2310 * rng.randint(1, 20) + rng.randint(-2, 2),
                        13 * 13 * rng.randint(1, 50) + rng.randint(-1, 1)])
        dump.append("ft %d %d %d" % (y, rng.randint(1, 8), rng.choice([16, 32])))
        z = rng.choice([rng.randint(300, 3000), rng.randint(3000, 40000), 2310 * rng.randint(1, 15) + rng.randint(-2, 2)])
        dump_d.append("ftd %d %d %d %d" % (rng.randint(1, z), z, rng.randint(1, 8), rng.choice([16, 32])))
    # beyond max(): primecount_error
    # (for uint32_t max() exceeds INT64_MAX, so the test can only fire for uint16_t)
    mx = (2 ** 16 - 2) ** 2 - 1
    for d in (1, 2, 10 ** 6):
        dump.append("ft %d 1 16" % (mx + d))
        dump_d.append("ftd 100 %d 3 16" % (mx + d))
    # several threads really used: y > 1e7 (thread_distance is a multiple of 2310)
    # (6 * THRESH + 4621, 7): seven construction threads — thread indexes >= 4 are where an interval no longer starts
    # near 0 relative to its length (seeded change C02-b stops the prime loop early only there); ~25 s of model time
    big = [(2 * THRESH + 1, 2), (2 * THRESH + 4621, 5), (6 * THRESH + 4621, 7)] if ctx.quick else \
        [(2 * THRESH + 1, 2), (2 * THRESH + 4621, 5), (3 * THRESH + 2309, 3), (5 * THRESH + 17, 16), (4 * THRESH, 64)]
    for y, th in big:
        hashes.append("fthash %d %d 32" % (y, th))
        hashes.append("ftdhash %d %d %d 32" % (rng.randint(1000, 100000), y, th))
        # y of the order of z as well: with a small y every number with a prime factor > y is zeroed by the second pass, which
        # hides what the first pass (mu / lpf marking by the primes up to z / 13) did to it (seeded change C02-b)
        hashes.append("ftdhash %d %d %d 32" % (rng.choice((y // 2, y // 13 + rng.randint(0, 1000), y - rng.randint(0, 1000))), y, th))
        t = ideal_threads(y, th)
        td = -(-y // t)
        td += 2310 - td % 2310
        for d in (-1, 0, 1):     # last thread's range [td*(t-1)+1, y] has 0, 1, 2 numbers
            yy = td * (t - 1) + 1 + d
            if ideal_threads(yy, th) == t:
                hashes.append("fthash %d %d 32" % (yy, th))
    idx = ["ftidx %d" % n for n in range(1, 5001)] + ["ftnum %d" % i for i in range(0, 1100)]
    for _ in range(300):
        idx.append("ftidx %d" % rng.randrange(1, 10 ** 7))
        idx.append("ftnum %d" % rng.randrange(0, 2 * 10 ** 6))
    return dump, dump_d, hashes, idx


def _gen_ops(ctx):
    rng = ctx.rng
    ops = []
    for n in range(0, 301):
        for g in ("genpi", "genlpf", "genmu", "genmpf", "genprimes"):
            ops.append("%s %d" % (g, n))
    for _ in range(10 if ctx.quick else 200):
        n = rng.choice([rng.randint(300, 5000), rng.randint(5000, 60000), rng.randint(30, 240) ** 2 + rng.randint(-1, 1)])
        for g in ("genpi", "genlpf", "genmu", "genmpf", "genprimes"):
            ops.append("%s %d" % (g, n))
    return ops


def _bit_ops(ctx):
    rng = ctx.rng
    ops = []
    for s in range(150 if ctx.quick else 3000):
        size = rng.choice([2, 3, 4, 8, 16, 17, 64, 100, 128, 256, 511, 512, rng.randint(2, 600)])
        p = rng.choice([0.1, 0.5, 0.9, 1.0])
        sieve = [1 if (i % 2 == 0 and rng.random() < p) else 0 for i in range(size)]
        toks = ["".join(map(str, sieve))]
        half = size // 2
        live = [i for i in range(0, 2 * half, 2) if sieve[i]]
        low = rng.choice([0, 1, 1, 7, 1000001])
        for _ in range(rng.randint(1, 40)):
            if live and rng.random() < 0.4:
                pos = live.pop(rng.randrange(len(live)))
                toks.append("u:%d" % pos)
            else:
                d = rng.randrange(0, 2 * half)
                toks.append("c:%d:%d" % (low, low + d))
        toks.append("c:%d:%d" % (low, low + 2 * half - 1))
        ops.append("bit " + " ".join(toks))
    return ops


def _rename(mapping):
    def f(ops, impl):
        out = []
        for o in ops:
            p = o.split(" ", 1)
            out.append(mapping[p[0]] + (" " + p[1] if len(p) > 1 else ""))
        return out
    return f


def _nontrivial(op, res):
    p = op.split()
    if p[0] in ("pit", "pitraw", "pithash"):
        return op if int(p[1]) >= 6 else None
    if p[0] in ("ft", "fthash"):
        return op if int(p[1]) >= 13 else None
    if p[0] in ("ftd", "ftdhash"):
        return op if int(p[2]) >= 13 else None
    if p[0].startswith("gen") or p[0] in ("ftidx", "ftnum"):
        return op if int(p[1]) >= 2 else None
    return op


def _classify(op, res):
    p = op.split()
    if p[0] in ("pit", "pithash", "pitraw"):
        mx, th = int(p[1]), int(p[2])
        if mx < PI_CACHE_LIMIT:
            return p[0] + ":cache-only"
        return "%s:threads-used=%d" % (p[0], pit_params(mx, th)[0])
    if p[0] == "ft":
        y = int(p[1])
        return "ft:F3-region" if 13 <= y < 169 else ("ft:y<13" if y < 13 else "ft:y>=169")
    return p[0]


def streams(ctx, sieve_half=True):
    sts = []
    tmo = 900 if ctx.quick else 7200
    # pi_cache_: every x < 30720, against the L2 lookup and against the oracle sieve
    cache_ops = ["picache %d" % x for x in range(0, PI_CACHE_LIMIT)]
    sts.append(Stream("tables-picache-mirror", cache_ops, oracle=False, nontrivial=_nontrivial, classify=_classify, timeout=tmo))
    q_ops, raw_ops, hash_ops = _pit_ops(ctx)
    sts.append(Stream("tables-pit-mirror", q_ops + raw_ops + hash_ops, oracle=False, nontrivial=_nontrivial,
                      classify=_classify, timeout=tmo))
    spec_q = [o for o in q_ops if int(o.split()[1]) <= 3 * 10 ** 6]
    sts.append(Stream("tables-pit-spec", spec_q, oracle=True, model_ops=_rename({"pit": "pitspec"}),
                      nontrivial=_nontrivial, classify=_classify, timeout=tmo))
    seg = _seg_ops(ctx, True)
    sts.append(Stream("tables-segpi-mirror", seg, oracle=False, classify=_classify, timeout=tmo))
    seg2 = _seg_ops(ctx, False)
    sts.append(Stream("tables-segpi-spec", seg2, oracle=True, model_ops=_rename({"segpi": "segpispec"}),
                      classify=_classify, timeout=tmo))
    dump, dump_d, hashes, idx = _ft_ops(ctx)
    sts.append(Stream("tables-ft-spec", dump + dump_d, oracle=True, model_ops=_rename({"ft": "ftspec", "ftd": "ftdspec"}),
                      nontrivial=_nontrivial, classify=_classify, timeout=tmo))
    sts.append(Stream("tables-ft-mirror", dump + dump_d + hashes + idx, oracle=False, nontrivial=_nontrivial,
                      classify=_classify, timeout=tmo))
    sts.append(Stream("tables-ftidx-spec", idx[:6100], oracle=True, model_ops=_rename({"ftidx": "ftidxspec", "ftnum": "ftnumspec"}),
                      nontrivial=_nontrivial, classify=_classify, timeout=tmo))
    gen = _gen_ops(ctx)
    sts.append(Stream("tables-gen-mirror", gen, oracle=False, nontrivial=_nontrivial, classify=_classify, timeout=tmo))
    gen_spec = [o for o in gen if int(o.split()[1]) <= (6000 if ctx.quick else 60000)]
    sts.append(Stream("tables-gen-spec", gen_spec, oracle=True,
                      model_ops=_rename({g: g + "spec" for g in ("genpi", "genlpf", "genmu", "genmpf", "genprimes")}),
                      nontrivial=_nontrivial, classify=_classify, timeout=tmo))
    bit = _bit_ops(ctx)
    sts.append(Stream("tables-bit-mirror", bit, oracle=False, classify=_classify, timeout=tmo))
    sts.append(Stream("tables-bit-spec", bit, oracle=True, model_ops=_rename({"bit": "bitspec"}), classify=_classify, timeout=tmo))
    # the oracle side of pi_cache: one block per line would hide the x; keep per-x ops but answer them from one sieve
    sts.append(Stream("tables-picache-spec", ["picacher 0 %d" % PI_CACHE_LIMIT], oracle=True,
                      model_ops=_rename({"picacher": "pispecr"}), judge=_judge_range, timeout=tmo))
    sieve_mod = _sieve_module() if sieve_half else None
    if sieve_mod is not None:
        sts += sieve_mod.streams(ctx)
    return sts


def _judge_range(ops, impl, mops, model):
    """ops `picacher a b`: both sides print b-a values; report the first differing x"""
    dis = []
    for i, (o, x, y) in enumerate(zip(ops, impl, model)):
        if x == y:
            continue
        a = int(o.split()[1])
        xs, ys = x.split(), y.split()
        k = next((j for j in range(min(len(xs), len(ys))) if xs[j] != ys[j]), min(len(xs), len(ys)))
        dis.append(dict(index=i, op="picache %d" % (a + k), impl=xs[k] if k < len(xs) else "?", model=ys[k] if k < len(ys) else "?"))
    return dis


def _sieve_module():
    try:
        import importlib
        return importlib.import_module("pcv.props.c17sieve")
    except ImportError:
        return None


# ------------------------------------------------------------------------------------------------ search

def _first_diff(a, b):
    xs, ys = a.split(), b.split()
    for j in range(min(len(xs), len(ys))):
        if xs[j] != ys[j]:
            return j, xs[j], ys[j]
    if len(xs) != len(ys):
        j = min(len(xs), len(ys))
        return j, (xs[j] if j < len(xs) else "<end>"), (ys[j] if j < len(ys) else "<end>")
    return None


def _obligation_witness(ctx, proof_broken):
    """A generated obligation no longer checks: name the table entry, and for pi_cache words the smallest x
    with pi_cache(x) != pi(x), confirmed on the binary."""
    pat = (r"(piCache_word|piCache_count|setBit_row|unsetBit_row|unsetLarger_row|sieveUnsetSmaller_row|"
           r"sieveUnsetLarger_row|coprime_row|coprimeIndexes_row)_(\d+)")
    m = re.search(pat, proof_broken or "")
    if not m:
        # the kernel error names file:line only; read the theorem name from the generated file
        loc = re.search(r"(PcGen/\w+\.lean):(\d+):", proof_broken or "")
        if loc:
            try:
                line = open(os.path.join(core.LEAN, loc.group(1))).read().splitlines()[int(loc.group(2)) - 1]
                m = re.search(pat, line)
            except (OSError, IndexError):
                m = None
    if not m:
        return None
    kind, i = m.group(1), int(m.group(2))
    w = dict(broken="generated obligation PcGen.Obl.%s_%d" % (kind, i), failing_input=None)
    if kind in ("piCache_word", "piCache_count"):
        lo = 240 * i
        ops = ["picacher %d %d" % (lo, min(lo + 480, PI_CACHE_LIMIT))]
        exe = core.ensure_harness("rel")
        _, impl, _, _ = core.run_harness(exe, "\n".join(ops) + "\n", timeout=60)
        _, spec, _, _ = core.run_model("pispecr %d %d\n" % (lo, min(lo + 480, PI_CACHE_LIMIT)), timeout=120)
        if impl and spec:
            d = _first_diff(impl[0], spec[0])
            if d:
                w.update(failing_input="PiTable::pi_cache(%d)" % (lo + d[0]), observed=d[1], expected=d[2],
                         replay_hint="echo 'picache %d' | pcharness ; echo 'pispec %d' | pcdrv" % (lo + d[0], lo + d[0]))
    else:
        w["rows"] = "entries %d..%d of the table" % (i, i + 9)
    return w


def _locate_hash_diff(p):
    """p = ['fthash', y, thr, bits] or ['ftdhash', y, z, thr, bits]: first entry where the real table differs from the
    documented encoding; None if the real table agrees with the spec on the entries where it differs from the model"""
    dump_op = ("ft " if p[0] == "fthash" else "ftd ") + " ".join(p[1:])
    try:
        exe = core.ensure_harness("rel")
        rc, impl, err, _ = core.run_harness(exe, dump_op + "\n", timeout=900, env={"PCV_OP_TIMEOUT": "600"})
        rc2, model, err2, _ = core.run_model(dump_op + "\n", timeout=1800)
    except Exception:
        return None
    if not impl or not model:
        return None
    a, b = impl[0].split(), model[0].split()
    bits = p[-1]
    diffs = [i for i in range(1, min(len(a), len(b))) if a[i] != b[i]][:2000]
    if not diffs:
        return None
    ns = [to_number(i - 1) for i in diffs]
    if p[0] == "fthash":
        q = "ftspecat %s %s" % (bits, " ".join(map(str, ns)))
    else:
        q = "ftdspecat %s %s %s" % (p[1], bits, " ".join(map(str, ns)))
    _, spec, _, _ = core.run_model(q + "\n", timeout=600)
    if not spec:
        return None
    sv = spec[0].split()
    for i, n, e in zip(diffs, ns, sv):
        if a[i] != e:
            if p[0] == "fthash":
                call = "FactorTable<uint%s_t>(%s, %s).mu_lpf(%d)" % (bits, p[1], p[2], i - 1)
            else:
                call = "FactorTableD<uint%s_t>(y=%s, z=%s, %s).is_leaf(%d)" % (bits, p[1], p[2], p[3], i - 1)
            return dict(failing_input="%s  (n=%d)" % (call, n), n=n, index=i - 1, observed=a[i], expected=e,
                        differing_entries_at_least=len(diffs),
                        replay_hint="echo '%s' | <cache>/rel/pcharness | cut -d' ' -f%d ; echo '%s' | pcdrv" % (dump_op, i + 1, q.split()[0] + " ... " + str(n)))
    return None


def search(ctx, proof_broken, bad, dis):
    rest = []
    reported = set()
    oracle_ops = set(d.get("op") for d in dis if d.get("oracle"))
    dis = sorted(dis, key=lambda d: 0 if d.get("oracle") else 1)
    for d in dis:
        if not d.get("oracle") and d.get("op") in oracle_ops and not d.get("stream", "").startswith("sieve"):
            continue    # the same op already disagrees with the spec value: reported there, with the input
        op = d.get("op", "")
        p = op.split()
        if d.get("stream", "").startswith("sieve"):
            rest.append(d)
            continue
        if p and p[0] in ("ft", "ftd") and not d.get("crash") and not d.get("model_crash"):
            fd = _first_diff(d["impl"], d["model"])
            if fd and fd[0] >= 1:
                idx = fd[0] - 1
                n = to_number(idx)
                bits = p[-1]
                if p[0] == "ft":
                    y = int(p[1])
                    call = "FactorTable<uint%s_t>(%s, %s).mu_lpf(%d)" % (bits, p[1], p[2], idx)
                    cls = "F3-factortable-uninit" if (13 <= y < 169 and fd[2] == str(2 ** int(bits) - 1)) else "ft:" + op.replace(" ", "_")
                else:
                    y = int(p[1])
                    call = "FactorTableD<uint%s_t>(y=%s, z=%s, %s).is_leaf(%d)" % (bits, p[1], p[2], p[3], idx)
                    cls = "ftd:" + op.replace(" ", "_")
                if (cls, d["oracle"]) in reported and cls.startswith("F3"):
                    continue
                reported.add((cls, d["oracle"]))
                if len(ctx.res.violations) < 8:
                    emit_violation(ctx, "correspondence",
                                   "stream %s: %s [n = to_number(%d) = %d] returns %s, the %s says %s" % (
                                       d["stream"], call, idx, n, fd[1], "documented encoding (spec)" if d["oracle"] else "model", fd[2]),
                                   dict(failing_input="%s  (y=%d, n=%d)" % (call, y, n) if d["oracle"] else None,
                                        broken=None if d["oracle"] else "correspondence stream " + d["stream"],
                                        y=y, n=n, index=idx, observed=fd[1], expected=fd[2], op=op, stream=d["stream"], key=cls,
                                        replay_hint="echo '%s' | <cache>/rel/pcharness | cut -d' ' -f%d" % (op, idx + 2)))
                continue
        if p and p[0] in ("fthash", "ftdhash") and not d.get("crash") and not d.get("model_crash") and "fthash-loc" not in reported:
            # a table too large for the spec stream differs from the mirror model: dump both, take the first differing
            # entry and judge THAT entry with the documented encoding (ftspecat / ftdspecat)
            w = _locate_hash_diff(p)
            if w is not None:
                reported.add("fthash-loc")
                emit_violation(ctx, "correspondence",
                               "stream %s: %s returns %s, the documented encoding (spec) says %s" % (
                                   d["stream"], w["failing_input"], w["observed"], w["expected"]),
                               dict(op=op, stream=d["stream"], key="fthash:" + op.replace(" ", "_"), **w))
                continue
        if p and p[0] == "pit" and d.get("oracle") and not d.get("crash") and not d.get("model_crash"):
            fd = _first_diff(d["impl"], d["model"])
            qs = p[3:]
            if fd and fd[0] < len(qs):
                if "pit-spec" not in reported:
                    reported.add("pit-spec")
                    q = int(qs[fd[0]])
                    emit_violation(ctx, "correspondence",
                                   "stream %s: PiTable(%s, %s)[%d] returns %s but pi(%d) = %s (oracle sieve)" % (
                                       d["stream"], p[1], p[2], q, fd[1], q, fd[2]),
                                   dict(failing_input="PiTable(%s, %s)[%d]" % (p[1], p[2], q), observed=fd[1], expected=fd[2],
                                        op="pit %s %s %d" % (p[1], p[2], q), stream=d["stream"], key="pit:%s_%s_%d" % (p[1], p[2], q),
                                        replay_hint="echo 'pit %s %s %d' | <cache>/rel/pcharness" % (p[1], p[2], q)))
                continue
        if p and p[0] == "pit" and not d.get("oracle") and not d.get("crash") and not d.get("model_crash"):
            # a large table (no spec stream): ask the independent oracle sieve for the first differing query
            fd = _first_diff(d["impl"], d["model"])
            qs = p[3:]
            if fd and fd[0] < len(qs) and int(qs[fd[0]]) <= 5 * 10 ** 7 and ("pit-oracle" not in reported):
                q = int(qs[fd[0]])
                _, spec, _, _ = core.run_model("pitspec %d 1 %d\n" % (q, q), timeout=300)
                if spec and spec[0].strip().isdigit() and spec[0].strip() != fd[1]:
                    reported.add("pit-oracle")
                    emit_violation(ctx, "correspondence",
                                   "stream %s: PiTable(%s, %s)[%d] returns %s but pi(%d) = %s (oracle sieve); L2 model says %s" % (
                                       d["stream"], p[1], p[2], q, fd[1], q, spec[0].strip(), fd[2]),
                                   dict(failing_input="PiTable(%s, %s)[%d]" % (p[1], p[2], q), observed=fd[1],
                                        expected=spec[0].strip(), op="pit %s %s %d" % (p[1], p[2], q), stream=d["stream"],
                                        key="pit:%s_%s_%d" % (p[1], p[2], q),
                                        replay_hint="echo 'pit %s %s %d' | <cache>/rel/pcharness" % (p[1], p[2], q)))
                    continue
        rest.append(d)
    pb = proof_broken
    if proof_broken:
        w = _obligation_witness(ctx, proof_broken)
        if w is not None:
            emit_violation(ctx, "proof", proof_broken, w)
            pb = None
    sm = _sieve_module()
    if sm is not None and hasattr(sm, "search"):
        srest = [d for d in rest if d.get("stream", "").startswith("sieve")]
        if srest and sm.search(ctx, None, [], srest):
            rest = [d for d in rest if not d.get("stream", "").startswith("sieve")]
    default_search(ctx, pb, bad, rest)
    return True
