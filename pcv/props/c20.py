"""C20 — calls are pure: no result depends on call history, settings or status output."""
import os
import struct

from .. import core
from ..runner import Stream, emit_violation, default_search

RULE = ("seeded call histories (20..200 calls: pi, pi(string), phi, nth_prime, set/get threads incl. 0, negative, INT_MAX, "
        "set_alpha/alpha_y/alpha_z in and out of range, print switches, status precision, failing calls), each executed in ONE "
        "fresh process, under three OpenMP defaults (machine default, OMP_NUM_THREADS=3, =1); every result compared with the pure "
        "model (sieve / trial-division tables in Lean up to 3*10^6; above that pi(10^k) constants or the value a single-call "
        "fresh process returned); CLI runs x {-s, -sN, --status[=N], --time, -t N, --threads=N, --alpha-y/z} compared with the "
        "model's number, partial formulas compared across option sets. distinct = distinct op lines")
TRUSTED = ["L1 model PcModel/ApiState.lean of the process-global settings; the set of mutable globals, their writers and the "
           "library-internal setter calls are generated from the sources (translator/extract_globals.py, textual) and proved equal "
           "to the modelled lists by decide",
           "hypothesis AlgConfigIndependent (value of pi/phi/nth_prime independent of threads, alpha, print mode): stated "
           "explicitly in the theorems; discharged by C01/C03/C04/C06/C07, here only sampled by the history stream",
           "Lean Float (binary64, libm log) reproduces get_alpha_lmo / get_alpha_gourdon at x = 10^36 bit for bit: used only to "
           "OBSERVE alpha_, alpha_y_, alpha_z_ (they have no getter)",
           "harness/ops_api.cpp: a history is run by re-executing the harness (fresh process); library stdout goes to /dev/null",
           "pi(10^k) for k = 6..10 as trusted constants in the driver; calculator rejections of a fixed list of bad strings"]
ASSUMPTIONS = ["omp_get_max_threads() >= 1 and hardware_concurrency-based primesieve maximum >= 1",
               "alpha arguments are finite and |alpha * 1000| < 2^63 (otherwise the C++ cast in truncate3 is undefined)",
               "pi(string) for 10^10 < x < 3*10^37 is outside the sampled domain (the error/ok boundary near get_max_x() "
               "depends on alpha_y: see report)"]

I64MIN, I64MAX = -2**63, 2**63 - 1
MAX_N = 216289611853439384
TAB_LIMIT = 3000000
KNOWN_PI = {10**6, 10**7, 10**8, 10**9, 10**10}
BIG = [10**7, 10**8, 10**8 + 7, 123456789, 10**9, 2 * 10**9 + 11, 10**10]
BAD_STRINGS = ["", "abc", "1/0", "2**", "(1", "1 1", "1%0", "1+", ")"]
ALPHAS = [1.0, 1.5, 2.001, 3.14159, 0.999, 0.0, -1.0, -7.5, 1000.0, 12345.678, 1e6, 2e6, 5.0, 50.0, 1.0009999, 7.9999]

_ctxinfo = {}


def generated_obligations():
    return 3


def hx(s):
    return s.encode().hex() if s else "-"


def bits(d):
    return "%016x" % struct.unpack(">Q", struct.pack(">d", d))[0]


def gen_history(rng, ncalls, heavy):
    toks = []
    for _ in range(ncalls):
        k = rng.random()
        if k < 0.16:
            r = rng.random()
            if r < 0.18 and heavy:
                x = rng.choice(BIG)
            elif r < 0.3:
                x = rng.choice([I64MIN, -1, 0, 1, 2, 3, 9999, 10000, 10001, 10**5, 10**5 + 1, 15485863 % TAB_LIMIT])
            elif r < 0.4:
                x = rng.randint(10**5, TAB_LIMIT)
            else:
                x = rng.getrandbits(rng.randint(1, 17))
            toks.append("pi:%d" % x)
        elif k < 0.28:
            r = rng.random()
            if r < 0.3:
                s = rng.choice(BAD_STRINGS + ["1" + "0" * 40, "1" + "0" * 38, "9" * 39, "-5", "-123456", "000000000000000000000000000100", "0000"])
            elif r < 0.36 and heavy:
                s = str(rng.choice(BIG))
            else:
                s = str(rng.getrandbits(rng.randint(1, 18)))
            toks.append("pis:" + hx(s))
        elif k < 0.38:
            x = rng.choice([I64MIN, -1, 0, 1, 2, 100, 10**5, rng.getrandbits(rng.randint(1, 17)), rng.randint(1, 10**6)])
            a = rng.choice([I64MIN, -1, 0, 1, 2, 3, 6, 7, 8, 9, 10, 25, 64, 65, rng.randint(0, 300), rng.randint(0, 10**5), I64MAX])
            toks.append("phi:%d:%d" % (x, a))
        elif k < 0.47:
            n = rng.choice([I64MIN, -1, 0, 1, 2, 168, 169, 170, 3314, 3315, 9592, MAX_N + 1, I64MAX,
                            rng.randint(1, 9592), rng.randint(1, 9592), rng.randint(9593, 10**5)])
            toks.append("nth:%d" % n)
        elif k < 0.57:
            toks.append("st:%d" % rng.choice([0, -1, 1, 2, 3, 4, 7, 8, 16, 17, 64, 2**31 - 1, -2**31, rng.randint(-5, 40)]))
        elif k < 0.65:
            toks.append(rng.choice(["gt", "gt", "gpt"]))
        elif k < 0.77:
            toks.append("%s:%s" % (rng.choice(["sa", "say", "saz"]), bits(rng.choice(ALPHAS + [round(rng.uniform(0.5, 30.0), rng.randint(0, 5))]))))
        elif k < 0.81:
            toks.append("ga")
        elif k < 0.88:
            toks.append(rng.choice(["sp:1", "sp:0", "sp:1", "spv:1", "spv:0"]))
        elif k < 0.91:
            toks.append("gp")
        elif k < 0.96:
            toks.append("ssp:%d" % rng.choice([-1, 0, 1, 2, 3, 5, 6, 9, 2**31 - 1, -2**31]))
        else:
            toks.append("gsp")
    return toks


def history_ops(ctx, nlines, heavy):
    rng = ctx.rng
    ops = ["hwinfo"]
    # reference values for arguments above the model's tables: the same call alone in a fresh process
    for x in BIG:
        if x not in KNOWN_PI:
            ops.append("history pi:%d" % x)
    # a fixed scenario: overrides set, a large computation, overrides reset, same computation again
    ops.append("history pi:10000000000,say:%s,saz:%s,st:1,sp:1,pi:10000000000,pis:%s,say:%s,saz:%s,sp:0,st:0,pi:10000000000,"
               "nth:0,pis:%s,pi:10000000000,ga,gt,gp" % (bits(1.0), bits(3.0), hx("10000000000"), bits(0.0), bits(-1.0), hx("1/0")))
    for _ in range(nlines):
        ops.append("history " + ",".join(gen_history(rng, rng.randint(20, 200), heavy)))
    # cross-check of "spec value = what a fresh process returns": seeded single calls
    for _ in range(12 if ctx.quick else 200):
        ops.append("history " + gen_history(rng, 1, False)[0])
    return ops


def make_model_ops(name):
    def model_ops(ops, impl):
        hw = impl[0].split() if impl and len(impl[0].split()) == 2 else ["1", "1"]
        tab = {}
        for op, res in zip(ops, impl):
            p = op.split()
            if p[0] == "history" and "," not in p[1] and p[1].startswith("pi:"):
                x = int(p[1][3:])
                if x > TAB_LIMIT and res.isdigit():
                    tab[x] = res
        tabs = ";".join("%d=%s" % kv for kv in sorted(tab.items())) or "-"
        _ctxinfo[name] = (hw, tabs)
        out = []
        for op, res in zip(ops, impl):
            p = op.split()
            if p[0] == "hwinfo":
                out.append("echo " + res)
            elif p[0] == "history":
                out.append("%s %s %s %s" % (op, hw[0], hw[1], tabs))
            else:
                out.append(op)
        return out
    return model_ops


def classify(op, res):
    p = op.split()
    if p[0] == "history":
        n = p[1].count(",") + 1
        return "history:1" if n == 1 else ("history:<=50" if n <= 50 else "history:<=200")
    if p[0] == "cli":
        return "cli:" + ("err" if res.startswith("rc=1") else "ok")
    return p[0]


def nontrivial(op, res):
    return None if op.split()[0] == "hwinfo" else op


def cli_ops(ctx, binary):
    rng = ctx.rng
    optsets = [[], ["-s"], ["--status"], ["-s3"], ["--status=2"], ["--time"], ["-t", "1"], ["-t", "3"], ["--threads=2"],
               ["-s", "-t", "1"], ["--time", "-s5", "-t", "2"], ["--alpha-y=2", "-s"], ["--alpha-z=3", "--alpha-y=1"],
               ["-t", "0"], ["--threads=-3"], ["-t", "2147483647", "--status=0"], ["--alpha-y=0", "--alpha-z=0", "-s1"]]
    xs = [100, 10**4, 99999, 10**6, 10**7, 10**8, 10**9, 10**10, rng.randint(10**5, TAB_LIMIT), rng.randint(2, 10**5)]
    ops = []
    for x in xs:
        sets = optsets if (x >= 10**8 or not ctx.quick) else [optsets[0]] + rng.sample(optsets[1:], 6)
        for o in sets:
            ops.append("cli %s %d %s" % (binary, x, " ".join(o)))
    for bad in ("abc", "1/0", "-5", "--nosuchoption"):
        ops.append("cli %s %s" % (binary, bad))
        ops.append("cli %s %s -s" % (binary, bad))
    return [o.strip() for o in ops]


def partial_ops(ctx, binary):
    ops = []
    for x in (10**10, 10**11 + 3):
        for f in ("--P2", "--Sigma", "--Phi0", "--AC", "-B"):
            for o in ([], ["-s"], ["-s", "-t", "1"], ["--time"], ["-t", "3", "--status=3"]):
                ops.append(("cli %s %d %s %s" % (binary, x, f, " ".join(o))).strip())
    return ops


def partial_judge(ops, impl, mops, model):
    groups, dis = {}, []
    for i, (op, res) in enumerate(zip(ops, impl)):
        p = op.split()
        groups.setdefault((p[2], p[3]), []).append((i, op, res))
    for key, items in groups.items():
        ref = items[0][2]
        refnum = ref.split()[1] if len(ref.split()) == 3 else "?"
        for i, op, res in items:
            f = res.split()
            if len(f) != 3 or f[0] != "rc=0" or f[1] == "res=none" or f[1] != refnum:
                dis.append(dict(index=i, op=op, impl=res, model="same number as `%s`: %s" % (items[0][1], ref)))
    return dis


def streams(ctx):
    tinfo = ctx.res.extra.get("translator", {}).get("extract_globals", {})
    if "extractor_shape_changed" in tinfo:
        emit_violation(ctx, "translator", "extract_globals.py no longer recognises the source: " + tinfo["extractor_shape_changed"],
                       dict(failing_input=None, broken="translator/extract_globals.py (a namespace-scope statement could not be classified)"))
    binary = os.path.join(core.ensure_build("rel"), "primecount")
    n = 14 if ctx.quick else 120
    sts = []
    for name, env, heavy, k in (("history-omp-default", None, True, n), ("history-omp3", {"OMP_NUM_THREADS": "3"}, True, max(2, n // 2)),
                                ("history-omp1", {"OMP_NUM_THREADS": "1"}, False, max(2, n // 2))):
        sts.append(Stream(name, history_ops(ctx, k, heavy), oracle=True, model_ops=make_model_ops(name), classify=classify,
                          nontrivial=nontrivial, env=env, timeout=900))
    sts.append(Stream("cli", cli_ops(ctx, binary), oracle=True, classify=classify, timeout=900))
    sts.append(Stream("cli-partial", partial_ops(ctx, binary), oracle=True, judge=partial_judge,
                      model_ops=lambda ops, impl: ["echo -"] * len(ops), classify=classify, timeout=900))
    _ctxinfo["envs"] = {s.name: s.env for s in sts}
    return sts


# --------------------------------------------------------------------------- on break: shortest deviating history

def _run_pair(exe, toks, hw, tabs, env):
    line = "history " + ",".join(toks)
    rc, out, err, _ = core.run_harness(exe, line + "\n", timeout=120, env=env)
    rc2, mout, err2, _ = core.run_model("%s %s %s %s\n" % (line, hw[0], hw[1], tabs), timeout=120)
    a = out[0].split(",") if out else ["?"]
    b = mout[0].split(",") if mout else ["?"]
    return a, b


def minimise(ctx, d):
    name = d["stream"]
    hw, tabs = _ctxinfo.get(name, (["1", "1"], "-"))
    env = _ctxinfo.get("envs", {}).get(name)
    exe = core.ensure_harness("rel")
    toks = d["op"].split()[1].split(",")
    a, b = d["impl"].split(","), d["model"].split(",")
    idx = next((i for i in range(min(len(a), len(b), len(toks))) if a[i] != b[i]), None)
    if idx is None:
        return None
    cand = toks[:idx + 1]
    runs = 0

    def deviates(c):
        nonlocal runs
        runs += 1
        x, y = _run_pair(exe, c, hw, tabs, env)
        return len(x) == len(c) and len(y) == len(c) and x[-1] != y[-1], x[-1], y[-1]
    ok, obs, exp = deviates(cand)
    if not ok:
        return dict(failing_input=d["op"], expected=d["model"], observed=d["impl"], stream=name,
                    note="deviation at call %d (%s) did not reproduce on the prefix alone" % (idx, toks[idx]))
    # delta debugging over the calls before the deviating one: remove chunks of halving size while the deviation stays
    chunk = max(1, (len(cand) - 1) // 2)
    while chunk >= 1 and runs < 150:
        j = 0
        while j < len(cand) - 1 and runs < 150:
            trial = cand[:j] + cand[min(j + chunk, len(cand) - 1):]
            ok2, o2, e2 = deviates(trial) if len(trial) < len(cand) else (False, None, None)
            if ok2:
                cand, obs, exp = trial, o2, e2
            else:
                j += chunk
        chunk //= 2
    alone = _run_pair(exe, [cand[-1]], hw, tabs, env)
    return dict(failing_input="history " + ",".join(cand), expected=exp, observed=obs, stream=name, hw=hw, env=env,
                deviating_call=cand[-1], same_call_alone_in_fresh_process=alone[0][-1], model_value=alone[1][-1],
                original_history_length=len(toks), minimised_length=len(cand),
                key="%s:%s" % (name, ",".join(cand)),
                replay_hint="echo 'history %s' | <cache>/rel/pcharness ; echo 'history %s %s %s %s' | lean/.lake/build/bin/pcdrv" %
                            (",".join(cand), ",".join(cand), hw[0], hw[1], tabs))


def search(ctx, proof_broken, bad, dis):
    rest = []
    done = 0
    for d in dis:
        if (d.get("stream", "").startswith("history") and d.get("op", "").startswith("history ") and not d.get("crash")
                and not d.get("model_crash") and done < 3):
            w = minimise(ctx, d)
            if w is not None:
                emit_violation(ctx, "correspondence", "stream %s: a call's result depends on the history / settings "
                               "(shortest deviating history found by greedy removal)" % d["stream"], w)
                done += 1
                continue
        if done == 0 or not d.get("stream", "").startswith("history"):
            rest.append(d)       # once a minimised history is reported, further raw history lines add nothing
    default_search(ctx, proof_broken, bad, rest[:5])
    return True
