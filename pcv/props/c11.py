"""C11 — 128-bit code paths agree with the 64-bit paths and continue beyond 2^63."""
from ..runner import Stream
from .. import gen
from .. import params_streams

EXTRA_MODULES = ["C11Safe"]

RULE = ("every partial formula and both full algorithms through the int128_t instantiation AND the int64_t one on the same "
        "(x, y, z, k|c): outputs must be identical and equal to the defining sums (x <= 2e7) ; thorough: continuation at 2^63 +- d "
        "through increments; distinct = distinct (term, x, parameters)")
TRUSTED = ["as C08 (defining sums) ; branches that need an intermediate quotient >= 2^64 naturally (x > 1e22) are not executable here"]
ASSUMPTIONS = ["x < 2^63 for the equivalence"]
# wp-s1phi0: PcProps/C11Leaf.lean (S1 / Phi0 / Sigma / S2_trivial: the int64_t and int128_t instantiations agree)
EXTRA_MODULES = ["C11Leaf"]


def streams(ctx):
    rng = ctx.rng
    ops = []
    for x in list(range(2, 60)) + gen.structured_x(rng, 60, 2 * 10 ** 7, 60 if ctx.quick else 2000):
        y, z = gen.gourdon_yz(rng, x)
        k = gen.get_k(x)
        yd = gen.dr_y(rng, x)
        c = gen.get_c(yd)
        t = rng.choice((1, 2, 16))
        for w in ("64", "128"):
            ops.append("ident_gourdon %s %d %d %d %d %d" % (w, x, y, z, k, t))
            ops.append("ident_dr %s %d %d %d %d" % (w, x, yd, c, t))
    st1 = Stream("wide_vs_narrow_vs_definition", ops, oracle=True, timeout=1500, classify=lambda o, r: o.split()[0] + o.split()[1])
    ops2 = []
    for x in gen.structured_x(rng, 10 ** 8, 10 ** 12 if ctx.quick else 10 ** 15, 30 if ctx.quick else 500):
        y, z = gen.gourdon_yz(rng, x, 0.3)
        yd = min(gen.dr_y(rng, x, 0.3), gen.iroot(3, x) * 20)
        t = rng.choice((1, 16)) if x <= 10 ** 13 else 16     # one thread beyond 1e13 needs minutes per op (per-op alarm)
        ops2.append("ident_gourdon 64 %d %d %d %d %d" % (x, y, z, gen.get_k(x), t))
        ops2.append("ident_gourdon 128 %d %d %d %d %d" % (x, y, z, gen.get_k(x), t))
        ops2.append("ident_dr 64 %d %d %d %d" % (x, yd, gen.get_c(yd), t))
        ops2.append("ident_dr 128 %d %d %d %d" % (x, yd, gen.get_c(yd), t))
        ops2.append("algall %d %d dr64 dr128raw gourdon64 gourdon128raw pi" % (x, t))

    def judge(ops, impl, mops, model):
        dis = []
        for i in range(0, len(ops), 5):
            g64, g128, d64, d128, al = impl[i:i + 5]
            tot = {g64.split()[-1], d64.split()[-1]} | set(al.split())
            if g64 != g128 or d64 != d128 or len(tot) != 1:
                dis.append(dict(index=i, op=" ; ".join(ops[i:i + 5]), impl=" | ".join(impl[i:i + 5]),
                                model="64-bit and 128-bit lines identical term by term, all totals equal"))
        return dis
    st2 = Stream("wide_vs_narrow_large_x", ops2, oracle=True, judge=judge,
                 model_ops=lambda ops, impl: ["# " + o for o in ops], timeout=6000, env={"PCV_OP_TIMEOUT": "900"})
    sts = [st1, st2] + params_streams.c11_streams(ctx)
    if not ctx.quick:
        # continuation across 2^63 (expensive: minutes per call) through neighbouring values
        b = 2 ** 63
        ops3 = ["algall %d 16 pi" % (b + d) for d in (-2, -1, 0, 1, 2)]

        def judge3(ops, impl, mops, model):
            vals = [int(v) for v in impl if v.lstrip('-').isdigit()]
            dis = []
            # no prime among 2^63-2 .. 2^63+2 except none: 2^63-25 is the largest prime below 2^63; next above is 2^63+29
            if len(vals) != len(ops) or len(set(vals)) != 1:
                dis.append(dict(index=0, op=" ; ".join(ops), impl=" ".join(impl), model="pi constant on [2^63-2, 2^63+2]"))
            return dis
        sts.append(Stream("continuation_2^63", ops3, oracle=True, judge=judge3,
                          model_ops=lambda ops, impl: ["# " + o for o in ops], timeout=7200,
                          env={"PCV_OP_TIMEOUT": "3000"}))
    from . import c08leaf
    return sts + c08leaf.c11_streams(ctx)
