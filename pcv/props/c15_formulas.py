"""C15 (formula half) — D and S2_hard exist in two translation units each (the default file and the *_multiarch_avx512 twin,
selected at run time by the CPU detection); popcount-based counting is selected the same way. The same identities are run
in three processes whose CPU detection is forced (hook H2) to AVX512 / POPCNT / portable: every term must be identical
across the three. Inputs: small exhaustive-ish x, plus the TYPE-BOUNDARY regime of pcv/props/c08_regimes.py (x >= 2.9e14 with
y ~ x^(1/3): primes >= 2^16 reach the leaf loops, `prime * prime` no longer fits 32 bits) — seeded change C15-b narrowed
`prime` to the table's uint32_t element type in the DEFAULT copy of D only, invisible on an AVX512 machine."""
from ..runner import Stream
from .. import gen
from . import c17sieve, c08_regimes

RULE = ("ident_gourdon / ident_dr (all terms of both decompositions in one op) for 40 small x and the type-boundary regime "
        "(x in [2.9e14, 3e15], y ~ x^(1/3), z in {y, 2y, 40y}, both widths) x {AVX512, POPCNT, portable} forced by hook H2; "
        "all three output lines must be identical; distinct = distinct op lines")
TRUSTED = ["hook H2 forces the detection (the Sieve streams of C15 verify that the forced path is the one in use)",
           "the values themselves are judged by C08 (identities = pi(x))"]
ASSUMPTIONS = ["ARM SVE twins are not buildable here"]


def streams(ctx):
    rng = ctx.rng
    ops = []
    for x in gen.structured_x(rng, 10 ** 5, 10 ** 9, 12 if ctx.quick else 200):
        y, z = gen.gourdon_yz(rng, x)
        yd = gen.dr_y(rng, x)
        w = rng.choice(("64", "128"))
        ops.append("ident_gourdon %s %d %d %d %d %d" % (w, x, y, z, gen.get_k(x), rng.choice((1, 4))))
        ops.append("ident_dr %s %d %d %d %d" % (w, x, yd, gen.get_c(yd), rng.choice((1, 4))))
    reg = c08_regimes.streams(ctx)[0].ops
    ops += [o for o in reg if o.startswith("ident_")]
    if not ctx.quick:
        # D's leaf loops only reach primes >= 2^16 when z >= 2^32, i.e. x >= 65537^4 ~ 1.8447e19 (positions p^2 <= z): the one place
        # where `prime * prime` no longer fits 32 bits in D (seeded change C15-b, default copy of D only). ~30 s per run.
        import os
        from .. import core
        exe = os.path.join(core.ensure_build("rel"), "primecount")
        for x in (65537 ** 4 + 613539839, 18447870000000000000):
            ops.append("clit 900 %s %d -D --threads=16" % (exe, x))
    shared = {}
    sts = []
    order = ("A", "P", "B")
    for i, cfg in enumerate(order):
        def judge(ops_, impl, mops, model, cfg=cfg, last=(i == len(order) - 1)):
            shared[cfg] = impl
            dis = []
            if last:
                ref = shared[order[0]]
                for c in order[1:]:
                    for j, (a, b) in enumerate(zip(ref, shared[c])):
                        if a != b and a not in ("HANG", "CRASH", "SKIPPED") and b not in ("HANG", "CRASH", "SKIPPED"):
                            dis.append(dict(index=j, op="%s   [%s]" % (ops_[j], " ".join("%s=%s" % kv for kv in sorted(c17sieve.ENVS[c].items())) or "no override"),
                                            impl=b[:400], model="%s (same op with CPU dispatch %s)" % (a[:400], order[0])))
            return dis
        sts.append(Stream("formulas-dispatch-" + cfg, ops, oracle=True, env=dict(c17sieve.ENVS[cfg], PCV_OP_TIMEOUT="1000"),
                          model_ops=lambda o, impl: ["# " + s for s in o], judge=judge, timeout=3000,
                          classify=lambda op, r: op.split()[0] + ("/regime" if op.split()[0] != "clit" and int(op.split()[2]) > 10 ** 14 else "")))
    return sts
