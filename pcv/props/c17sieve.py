"""C17 (counting-sieve half) — `class Sieve` answers every count query exactly.

Exposes `streams(ctx)` (to be merged into pcv/props/c17.py, which the tables package owns), plus the history
generators that pcv/props/c15.py reuses.  `streams(ctx)` ALSO builds and audits lean/PcProps/C17Sieve.lean
(the runner only audits PcProps/<Cxx>.lean), so merging is `streams += c17sieve.streams(ctx)`.

Streams (op `sieve`, one line = one whole history on one real Sieve object):
  sieve-mirror-{A,P,B}  oracle=False  exact mirror incl. raw dumps (bytes, wheel state, counter array), under
                                      env {} / NO_AVX512 / NO_AVX512+NO_POPCNT (the counter granularity differs)
  sieve-spec-{A,P,B}    oracle=True   disciplined histories (the use S2_thread/D_thread make); every count is
                                      compared with the naive count from the DEFINITION (`sievespec`)
  sieve-misc            oracle=True   mask tables, SWAR popcount, align_segment_size
"""
import os
import re

from ..runner import Stream, emit_violation
from .. import core

RULE = ("histories on the real Sieve: exhaustive small scopes low in 30*[0,16), sizes 240*[1,4], prime sets within the "
        "first 12 primes > 5, all query positions (thorough; sampled in quick) + seeded random op sequences (<= 200 ops, "
        "sizes up to 240*200, lows up to 1e15, non-prime sieving numbers, undisciplined orders in the mirror streams); "
        "distinct = distinct history lines")
TRUSTED = ["harness/ops_sieve.cpp reads private members of Sieve via `#define private public` (layout unchanged)",
           "the POPCNT / VPOPCNTQ instructions compute the population count (model: popCount64)",
           "Lean Float.sqrt / Nat.toFloat are bit-identical to std::sqrt / uint64->double (allocate_counter only; "
           "all theorems quantify over the counter granularity)"]
ASSUMPTIONS = ["30 | low, low < 2^62, segment_size <= 2^24, sieving numbers < 2^32 (no uint64 wrap in Sieve::add)",
               "ops outside the defined behaviour of the C++ code (uninitialised sieve, out-of-range stop, wheel slot "
               "> wheel_.size()) are rejected identically by harness and model (ERR:domain@k)"]

ENVS = {"A": {}, "P": {"PRIMECOUNT_VERIF_NO_AVX512": "1"},
        "B": {"PRIMECOUNT_VERIF_NO_AVX512": "1", "PRIMECOUNT_VERIF_NO_POPCNT": "1"}}

SMALL_PRIMES = [7, 11, 13, 17, 19, 23, 29, 31, 37, 41, 43, 47]
MORE_PRIMES = SMALL_PRIMES + [53, 59, 61, 67, 71, 73, 79, 83, 89, 97, 101, 103, 107, 109, 113, 127, 131, 137, 139, 149,
                              151, 157, 163, 167, 173, 179, 181, 191, 193, 197, 199, 211, 223, 227, 229, 233, 239, 241,
                              251, 257, 263, 269, 271, 277, 281, 283, 293, 307, 311, 313, 317, 331, 337, 347, 349, 353]
ODD_NUMBERS = [1, 49, 77, 91, 121, 143, 169, 1001, 961, 30 * 7 + 1, 30 * 11 + 29, 65537, 2 ** 31 - 1, 4294967291]


def align(size):
    s = max(size, 240)
    if s % 240:
        s += 240 - s % 240
    return s


def pvec(ps):
    return ",".join(str(x) for x in [0, 2, 3, 5] + list(ps))


# ------------------------------------------------------------------ disciplined histories (spec + mirror)

def disciplined(rng, low, seg, ps, nseg, queries, cfg_letter="A", short_last=True, dumps=False, all_pos=False):
    """The use S2_thread makes: per segment pre_sieve(c) then for b = c+1.. : queries; cross_off_count(b).
    `queries(rng, size)` -> sorted list of stops.  Slot b is used in segment k only if used in all earlier ones."""
    segsize = align(seg)
    ops = []
    c = 3 + rng.randint(0, len(ps))
    maxb = 3 + len(ps)
    lo = low
    cur = segsize
    for k in range(nseg):
        size = cur
        if short_last and k == nseg - 1 and rng.random() < 0.6:
            size = rng.randint(1, cur)
        ops.append("pre:%d:%d:%d" % (c, lo, lo + size))
        if size < cur:
            cur = align(size)
        if dumps:
            ops += ["d", "dw", "dc"]
        ops.append("t")
        last_b = rng.randint(c, maxb) if k else maxb
        maxb = last_b
        for b in range(c + 1, last_b + 2):
            qs = list(range(cur)) if all_pos else queries(rng, cur)
            kind = rng.choice(["c", "c", "cP"] + (["cA"] if cfg_letter == "A" else []))
            for q in qs:
                ops.append("%s:%d" % (kind if not all_pos else "c", q))
            for _ in range(rng.randint(0, 3)):
                x, y = rng.randint(0, cur - 1), rng.randint(0, cur - 1)
                if rng.random() < 0.8 and x > y:
                    x, y = y, x
                ops.append("r:%d:%d" % (x, y))
            ops.append("t")
            if b <= last_b:
                ops.append("xc:%d:%d" % (ps[b - 4], b))
                if dumps:
                    ops += ["d", "dw", "dc"] if rng.random() < 0.5 else ["d"]
        lo += cur
    return "sieve %s %d %d %s %s" % (cfg_letter, low, seg, pvec(ps), " ".join(ops))


def sparse_queries(n):
    def q(rng, size):
        return sorted(rng.randint(0, size - 1) for _ in range(rng.randint(0, n)))
    return q


def small_scope(ctx, cfg, dumps):
    """low in 30*[0,16), sizes 240*[1,4], prime sets within the first 12 primes > 5."""
    rng = ctx.rng
    lines = []
    if ctx.quick:
        for _ in range(60):
            low = 30 * rng.randint(0, 15)
            seg = 240 * rng.randint(1, 4)
            ps = sorted(rng.sample(SMALL_PRIMES, rng.randint(0, 12)))
            lines.append(disciplined(rng, low, seg, ps, rng.randint(1, 3), sparse_queries(25), cfg, dumps=dumps,
                                     all_pos=(rng.random() < 0.15)))
    else:
        # every subset of the first 6 primes x every low x every size, all positions; random subsets of all 12
        for low in range(0, 480, 30):
            for seg in (240, 480, 720, 960):
                for mask in range(64):
                    ps = [SMALL_PRIMES[i] for i in range(6) if mask >> i & 1]
                    lines.append(disciplined(rng, low, seg, ps, 2, sparse_queries(25), cfg, dumps=dumps,
                                             all_pos=(mask % 8 == (low // 30 + seg // 240) % 8)))
                for _ in range(6):
                    ps = sorted(rng.sample(SMALL_PRIMES, rng.randint(0, 12)))
                    lines.append(disciplined(rng, low, seg, ps, rng.randint(1, 3), sparse_queries(40), cfg, dumps=dumps,
                                             all_pos=(rng.random() < 0.2)))
    return lines


def random_disciplined(ctx, cfg, n, dumps):
    rng = ctx.rng
    lines = []
    for _ in range(n):
        r = rng.random()
        if r < 0.5:
            low = 30 * rng.randint(0, 2000)
        elif r < 0.8:
            low = 30 * rng.randint(0, 10 ** 9)
        else:
            low = 30 * rng.randint(0, 10 ** 15 // 30)
        seg = rng.choice([240 * rng.randint(1, 12), 240 * rng.randint(8, 200), rng.randint(1, 5000)])
        pool = MORE_PRIMES if rng.random() < 0.8 else MORE_PRIMES + [49, 77, 91, 121, 1001, 65537]
        k = rng.randint(0, 14)
        ps = rng.sample(pool, k)
        if rng.random() < 0.8:
            ps.sort()
        nseg = rng.randint(1, 4)
        nq = max(1, 160 // max(1, (k + 1) * nseg))
        lines.append(disciplined(rng, low, seg, ps, nseg, sparse_queries(nq), cfg, dumps=dumps))
    return lines


# ------------------------------------------------------------------ wild histories (mirror only)

def wild(rng, cfg, maxops=200):
    """Any order of operations the C++ object tolerates: repeated/backwards pre_sieve sizes, plain cross_off after
    pre_sieve, decreasing stops, non-prime sieving numbers, slots re-used with another number."""
    r = rng.random()
    low = 30 * (rng.randint(0, 40) if r < 0.5 else rng.randint(0, 10 ** 12))
    if rng.random() < 0.05:
        low += rng.randint(1, 29)          # unaligned low: no defined meaning, but the object is still deterministic
    seg = rng.choice([240 * rng.randint(1, 8), 240 * rng.randint(8, 150), rng.randint(0, 3000)])
    pool = MORE_PRIMES + ODD_NUMBERS
    ps = [rng.choice(pool) for _ in range(rng.randint(0, 12))]
    cur = align(seg)
    wheel = 4
    inited = False
    ops = []
    n = rng.randint(1, maxops)
    while len(ops) < n:
        t = rng.random()
        if not inited or t < 0.06:
            size = rng.choice([cur, cur, rng.randint(1, cur), cur - rng.randint(0, min(cur - 1, 240))])
            c = rng.randint(0, 3 + len(ps))
            lo = low + rng.randint(0, 5) * cur
            ops.append("pre:%d:%d:%d" % (c, lo, lo + size))
            if size < cur:
                cur = align(size)
            wheel = max(wheel, c + 1)
            inited = True
        elif t < 0.22:
            i = rng.randint(4, wheel)
            p = ps[i - 4] if (i - 4 < len(ps) and rng.random() < 0.85) else rng.choice(pool)
            ops.append("%s:%d:%d" % ("xc" if rng.random() < 0.75 else "x", p, i))
            if i == wheel:
                wheel += 1
        elif t < 0.62:
            kind = rng.choice(["c", "c", "cP"] + (["cA"] if cfg == "A" else []))
            ops.append("%s:%d" % (kind, rng.randint(0, cur - 1)))
        elif t < 0.75:
            x, y = rng.randint(0, cur - 1), rng.randint(0, cur - 1)
            if rng.random() < 0.85 and x > y:
                x, y = y, x
            ops.append("r:%d:%d" % (x, y))
        elif t < 0.82:
            ops.append("t")
        elif t < 0.9995:
            ops.append(rng.choice(["d", "dw", "dc"]))
        else:
            ops.append(rng.choice(["c:%d" % cur, "xc:7:%d" % (wheel + 1), "x:0:4", "r:0:%d" % cur, "pre:3:5:5"]))
    return "sieve %s %d %d %s %s" % (cfg, low, seg, pvec(ps), " ".join(ops))


def count_heavy(rng, cfg, nwords):
    """C15: count(start, stop) with stop_idx - start_idx covering 0..9 (mod 8) and more, and count(stop) sweeps."""
    seg = 240 * nwords
    low = 30 * rng.randint(0, 10 ** 6)
    ps = sorted(rng.sample(MORE_PRIMES, rng.randint(3, 10)))
    c = 3 + rng.randint(0, len(ps))
    ops = ["pre:%d:%d:%d" % (c, low, low + seg), "t"]
    for b in range(c + 1, 3 + len(ps) + 2):
        for d in range(0, min(nwords, 28)):
            si = rng.randint(0, nwords - 1 - d)
            x = 240 * si + rng.randint(0, 239)
            y = 240 * (si + d) + rng.randint(0, 239)
            if x > y and d == 0:
                x, y = y, x
            ops.append("r:%d:%d" % (x, y))
        kind = rng.choice(["c", "cP"] + (["cA"] if cfg == "A" else []))
        pos = 0
        for _ in range(rng.randint(1, 30)):
            pos = min(seg - 1, pos + rng.choice([0, 1, rng.randint(0, 240), rng.randint(0, 2400), rng.randint(0, seg // 3)]))
            ops.append("%s:%d" % (kind, pos))
        ops.append("t")
        if b <= 3 + len(ps):
            ops.append("xc:%d:%d" % (ps[b - 4], b))
    return "sieve %s %d %d %s %s" % (cfg, low, seg, pvec(ps), " ".join(ops))


# ------------------------------------------------------------------ streams

def to_spec(ops, impl):
    return [re.sub(r"^sieve ", "sievespec ", o) for o in ops]


def classify(op, res):
    if res.startswith("ERR") or " ERR" in res:
        return "rejected"
    n = op.count(" pre:")
    return "segments=%d" % min(n, 4)


def misc_ops(ctx):
    rng = ctx.rng
    ops = ["sieve_masks"]
    xs = [0, 1, 2 ** 64 - 1, 2 ** 63, 0x5555555555555555, 0xAAAAAAAAAAAAAAAA, 0x0123456789ABCDEF, 0xFF00FF00FF00FF00]
    xs += [1 << i for i in range(64)] + [(1 << i) - 1 for i in range(65)]
    xs += [rng.getrandbits(64) for _ in range(300 if ctx.quick else 20000)]
    xs += [rng.getrandbits(64) & rng.getrandbits(64) & rng.getrandbits(64) for _ in range(100)]
    for x in xs:
        ops.append("sieve_popcnt_swar %d" % x)
        ops.append("sieve_popcnt64 %d" % x)
    for x in list(range(0, 1000)) + [rng.getrandbits(rng.randint(1, 62)) for _ in range(200)]:
        ops.append("sieve_align %d" % x)
    return ops


def phivec_ops(ctx):
    """phi_vector(x, a): x around prime squares, x < primes[a] (the pi[x] branch), x = 0, 1, large a"""
    rng = ctx.rng
    ops = []
    maxp = 2000
    import bisect
    ps = [q for q in range(2, maxp + 1) if all(q % d for d in range(2, int(q ** 0.5) + 1))]
    na = len(ps) - 2
    xs = [0, 1, 2, 3, 4, 5, 6, 7, 8, 9, 10, 24, 25, 26, 48, 49, 50, 120, 121, 122, 1000, 1999, 2000, 2001]
    for q in ps[:25]:
        xs += [q * q - 1, q * q, q * q + 1, q - 1, q, q + 1]
    xs += [30 * rng.randint(0, 3000) for _ in range(20 if ctx.quick else 400)]
    xs += [rng.randint(0, 300000) for _ in range(10 if ctx.quick else 300)]
    xs += [30 * rng.randint(10 ** 5, 6 * 10 ** 5) for _ in range(3 if ctx.quick else 60)]
    for x in xs:
        for a in sorted(set([0, 1, 2, 3, 4, 5, 6, 7, 8, 9, rng.randint(0, 40), rng.randint(0, na), na])):
            if rng.random() < (0.35 if ctx.quick else 1.0) or x < 30:
                ops.append("sieve_phivec %d %d %d %s" % (x, a, maxp, rng.choice(["u32", "i64"])))
    return ops


def lean_audit(ctx, module):
    """build + axiom audit of an extra property module (the runner only does PcProps/<Cxx>.lean)."""
    rc, logtxt, secs = core.lake_build([module])
    if rc != 0:
        from ..runner import _first_lean_error
        err = _first_lean_error(logtxt)
        emit_violation(ctx, "proof", err, dict(failing_input=None, broken="%s: %s" % (module, err.split("\n")[0])))
        return
    declared, ax, raw, arc = core.axiom_audit(module)
    if arc != 0:
        emit_violation(ctx, "proof", raw[-1500:], dict(failing_input=None, broken="lake env lean " + module))
        return
    ok = 0
    for t in declared:
        full = [k for k in ax if k == t or k.endswith("." + t)]
        if not full:
            emit_violation(ctx, "audit", "%s: no #print axioms line" % t, dict(failing_input=None, broken=t))
        elif not set(ax[full[0]]) <= core.ALLOWED_AXIOMS:
            emit_violation(ctx, "audit", "%s: axioms %s" % (t, ax[full[0]]), dict(failing_input=None, broken=t))
        else:
            ok += 1
    ctx.res.extra.setdefault("extra_modules", {})[module] = dict(theorems=len(declared), ok=ok, lake_secs=round(secs, 1))
    ctx.res.theorems.update(ax)
    ctx.res.obligations += len(declared)
    ctx.res.discharged += ok


def generated_obligations():
    return 8   # PcGen/WheelObl.lean


OUT_OPS = ("c", "cA", "cP", "r", "t", "d", "dw", "dc")


def shrink(op_line, impl, model):
    """minimal prefix of a history: cut after the op whose output is the first one that differs"""
    toks = op_line.split(" ")
    if toks[0] not in ("sieve", "sievespec") or len(toks) < 5:
        return op_line, impl, model
    a, b = impl.split(" "), model.split(" ")
    j = 0
    while j < len(a) and j < len(b) and a[j] == b[j]:
        j += 1
    if j >= max(len(a), len(b)):
        return op_line, impl, model
    k = -1
    for idx, t in enumerate(toks[5:]):
        if t.split(":")[0] in OUT_OPS:
            k += 1
            if k == j:
                pre = " ".join(toks[:5 + idx + 1])
                return pre, (a[j] if j < len(a) else "(missing)"), (b[j] if j < len(b) else "(missing)")
    return op_line, impl, model


def search(ctx, proof_broken, bad, disagreements):
    """Oracle-stream disagreements (the implementation differs from the value the DEFINITION assigns, proved equal to
    the model by `sieve_correct` / `phiVector_correct` / `swar_popcount_eq`) are failing inputs and are reported
    first, shrunk to the shortest prefix of the history whose last query answers wrongly; then mirror disagreements,
    broken proofs / obligations and audit findings."""
    oracle = [d for d in disagreements if d.get("oracle") and not d.get("model_crash")]
    mirror = [d for d in disagreements if not (d.get("oracle") and not d.get("model_crash"))]
    for d in oracle[:3]:
        pre, obs, exp = shrink(d["op"], str(d["impl"]), str(d["model"]))
        emit_violation(ctx, "correspondence", "stream %s: implementation differs from the proved spec value" % d["stream"],
                       dict(failing_input=pre, expected=exp[:400], observed=obs[:400], stream=d["stream"],
                            key="%s:%s" % (d["stream"], pre.replace(" ", "_")[:200]),
                            replay_hint="echo '<failing_input>' | <cache>/rel/pcharness   vs   the same line with op "
                                        "`sievespec` | lean/.lake/build/bin/pcdrv", more=len(oracle)))
    for d in mirror[:2]:
        pre, obs, exp = shrink(d["op"], str(d["impl"]), str(d["model"]))
        emit_violation(ctx, "correspondence", "stream %s: model and implementation differ" % d["stream"],
                       dict(failing_input=None, broken="correspondence stream " + d["stream"], op=pre,
                            model=exp[:400], impl=obs[:400], more=len(mirror)))
    if proof_broken:
        emit_violation(ctx, "proof", proof_broken, dict(failing_input=None, broken=proof_broken.split("\n")[0]))
    for b in bad:
        emit_violation(ctx, "audit", b, dict(failing_input=None, broken=b))
    return True


def wheel_obligations(ctx):
    """the generated `decide` obligations over the extracted switch tables"""
    rc, logtxt, secs = core.lake_build(["PcGen.WheelObl"])
    tinfo = ctx.res.extra.get("translator", {}).get("extract_wheel", {})
    if "extractor_shape_changed" in tinfo:
        ctx.res.notes.append("extract_wheel: " + tinfo["extractor_shape_changed"] +
                             " (last committed tables kept; the mirror streams execute the real switch)")
    if rc != 0:
        from ..runner import _first_lean_error
        err = _first_lean_error(logtxt)
        emit_violation(ctx, "proof", err, dict(failing_input=None, broken="generated obligation PcGen.WheelObl: " + err.split("\n")[0]))


def within_declared_preconditions(op):
    """C16 replays these histories on the ENABLE_ASSERT build: only histories whose constructor arguments satisfy the
    ASSERTs the constructor declares (low % 30 == 0, segment_size % 240 == 0 — what the load balancers are PROVED to
    hand out, C09 `aligned`) say anything about public inputs; the release constructor re-aligns other sizes silently."""
    p = op.split()
    if p[0] != "sieve":
        return True
    return int(p[2]) % 30 == 0 and int(p[3]) % 240 == 0


def streams(ctx, audit=True, wild_histories=True):
    if audit:
        wheel_obligations(ctx)
        lean_audit(ctx, "PcProps.C17Sieve")
    sts = []
    nrand = 120 if ctx.quick else 1500
    nwild = 300 if ctx.quick else 5000
    for cfg, env in ENVS.items():
        mirror = []
        if cfg == "A" or not ctx.quick:
            mirror += small_scope(ctx, cfg, dumps=True)
        mirror += random_disciplined(ctx, cfg, nrand, dumps=True)
        if wild_histories:   # deliberately outside the declared preconditions (ASSERTs): never replayed on the assert build (C16)
            mirror += [wild(ctx.rng, cfg) for _ in range(nwild)]
        sts.append(Stream("sieve-mirror-" + cfg, mirror, oracle=False, env=env, classify=classify, timeout=3000))
        spec = []
        if cfg == "P" or not ctx.quick:
            spec += small_scope(ctx, cfg, dumps=False)
        spec += random_disciplined(ctx, cfg, nrand, dumps=False)
        sts.append(Stream("sieve-spec-" + cfg, spec, oracle=True, env=env, model_ops=to_spec, classify=classify, timeout=3000))
    sts.append(Stream("sieve-misc", misc_ops(ctx), oracle=True, env=ENVS["B"], timeout=600,
                      classify=lambda o, r: o.split()[0]))
    sts.append(Stream("sieve-phivec", phivec_ops(ctx), oracle=True, timeout=3000,
                      classify=lambda o, r: "a=%s" % min(int(o.split()[2]), 10)))
    return sts
