"""C18 (core half, second part) — `Erat::init` / `initAlgorithms` against the model `eratInit`, field by field, and the observation of
`FloatOk` (`maxEratMedium_ < 2^25`), the ONE assumption about `double` arithmetic that `generator_contract` / `count_contract`
(lean/PcProps/C18CoreContract.lean) carry for stop >= 2^50 (below 2^50 it is proved: `float_ok_below_2_50`).

Auto-discovered stream module of C18 (pcv/props/c18_<name>.py).  Op `pseratinit` (harness/ops_pscore2.cpp, lean/PcModel/Drv/PsCore2.lean).
Mirror stream (oracle=False); additionally every harness line must say `floatok=1` — a `floatok=0` on the REAL code is reported as a
disagreement even if the model agrees (the assumption of the proved contracts would be false for that run).
"""
from ..runner import Stream

RULE = ("Erat::init: sieve sizes {16,17,31,32,33,48,64,100,128,256,512,1000,1024,2048,4096,8191,8192} KiB x forced L1 "
        "{0,4095,4096,16384,20000,32768,49152,65536,2^20,2^30,2^30+1} x stop in {167^2-1, 167^2, 2^k-1, 2^k (k=16..64), 2^50-1, 2^50, 2^64-1, "
        "random 64-bit, random < 2^40} x start = stop - {0, 1, 29, 30, 36, 37, 30*size-1.., random}; classes = which of EratSmall/Medium/Big "
        "are initialised and whether the run needs the assumption FloatOk (stop >= 2^50)")
TRUSTED = ["`FloatOk` (maxEratMedium_ = (uint64)(sieveSize * 3.0) < 2^25) for stop >= 2^50: assumed by the proved contracts, observed here on "
           "every op on the real code AND on the model (Lean `Float` = IEEE double)"]
ASSUMPTIONS = []

U64 = (1 << 64) - 1
KBS = [16, 17, 31, 32, 33, 48, 64, 100, 128, 256, 512, 1000, 1024, 2048, 4096, 8191, 8192]
L1S = [0, 4095, 4096, 16384, 20000, 32768, 49152, 65536, 1 << 20, 1 << 30, (1 << 30) + 1]


def _cls(op, r):
    f = dict(x.split("=") for x in r.split() if "=" in x)
    stop = int(op.split()[2])
    return "init=%s %s" % (f.get("init", "?"), "needs-FloatOk" if stop >= (1 << 50) else "proved(<2^50)")


def _judge(ops, impl, mops, model):
    dis = []
    for i, (o, a, b) in enumerate(zip(ops, impl, model)):
        if a in ("HANG", "CRASH", "SKIPPED"):
            continue
        if a != b:
            dis.append(dict(index=i, op=o, impl=a, model=b))
        elif "floatok=1" not in a and not a.startswith("ERR:"):
            dis.append(dict(index=i, op=o, impl=a, model="floatok=1 required: assumption FloatOk of generator_contract / count_contract is FALSE "
                                                          "for this run (maxEratMedium_ >= 2^25: the 23-bit multipleIndex of EratMedium can overflow)"))
    return dis


def streams(ctx):
    rng = ctx.rng
    q = ctx.quick
    ops = []
    stops = [167 * 167 - 1, 167 * 167, 163 * 163, 7, 8, 36, 37, 720, 721, (1 << 50) - 1, 1 << 50, (1 << 50) + 1, U64, U64 - 1]
    for k in range(16, 65):
        stops += [(1 << k) - 1, min(U64, 1 << k)]
    for _ in range(40 if q else 400):
        stops.append(rng.randint(7, U64))
        stops.append(rng.randint(7, 1 << 40))
        stops.append(rng.randint(1 << 50, U64))
    for stop in stops:
        for _ in range(3 if q else 12):
            kb = rng.choice(KBS if rng.random() < 0.8 else [rng.randint(16, 8192)])
            l1 = rng.choice(L1S)
            size = kb * 1024
            d = rng.choice([0, 1, 29, 30, 36, 37, 30 * size - 1, 30 * size, 30 * size + 7, 30 * size + 37, 60 * size, rng.randint(0, 1 << 30),
                            rng.randint(0, stop)])
            start = max(7, stop - d)
            if start >= U64:
                start = U64 - 1
            if start > stop:
                continue
            ops.append("pseratinit %d %d %d %d" % (start, stop, kb, l1))
    # every sieve size x the largest stop: maxEratMedium_ is largest there
    for kb in KBS:
        for l1 in (0, 32768, 1 << 20):
            ops.append("pseratinit %d %d %d %d" % (U64 - 10 ** 6, U64, kb, l1))
            ops.append("pseratinit %d %d %d %d" % (1 << 50, (1 << 50) + 10 ** 9, kb, l1))
    ops += ["pseratinit 6 100 16 0", "pseratinit 100 99 16 0", "pseratinit %d %d 16 0" % (U64, U64), "pseratinit 7 100 15 0", "pseratinit 7 100 8193 0"]
    return [Stream("pscore-init", ops, oracle=False, judge=_judge, classify=_cls)]
