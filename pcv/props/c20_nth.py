"""C20 (WP nth) — call histories in which nth_prime(n) is called with DECREASING / zig-zag / repeated n that lie close
together (within 100000 and within a few units), all above the lookup-table regimes (n > 3314), in ONE process.

The generic history generator of c20.py draws its `nth:` arguments independently; this stream makes the pattern "a later call
with a nearby smaller n" (what a per-thread / static cache of the previous result inside src/nth_prime.cpp would get wrong)
certain instead of likely.  The pure model (`history` op of PcModel/Drv/Api.lean) answers each call with the n-th prime from
its sieve (n <= 150000); the stream is named `history-…` so that c20.search minimises a deviating history by delta debugging.
Auto-discovered by the runner (pcv/props/c20_<name>.py).
"""
from ..runner import Stream
from . import c20

LO, HI = 3315, 150000
RULE = ("WP nth: history-nth-nearby: seeded histories of 6..40 nth_prime calls with n in [3315, 150000]: strictly decreasing by "
        "1..100000, zig-zag +-d (d in 1, 2, 10, 1000, 99999, 100000, 100001), repeated n, interleaved with pi / phi / failing "
        "nth_prime(0) / table-regime nth_prime calls / set_num_threads")
TRUSTED = []
ASSUMPTIONS = []


def gen_nearby(rng, quick):
    toks = []
    n = rng.randint(LO + 1000, HI)
    toks.append("nth:%d" % n)
    for _ in range(rng.randint(5, 39)):
        r = rng.random()
        if r < 0.45:        # a nearby smaller n
            d = rng.choice([1, 1, 2, 3, 10, 100, 1000, 10000, 99999, 100000, 100001, rng.randint(1, 100000)])
            n = n - d if n - d >= LO else min(HI, n + d)
        elif r < 0.65:      # a nearby larger n
            d = rng.choice([1, 2, 10, 1000, 99999, 100000, 100001, rng.randint(1, 100000)])
            n = n + d if n + d <= HI else max(LO, n - d)
        elif r < 0.72:      # the same n again
            pass
        elif r < 0.80:
            n = rng.randint(LO, HI)
        else:               # something else in between (must not disturb anything)
            toks.append(rng.choice(["pi:%d" % rng.randint(0, 10**6), "phi:%d:%d" % (rng.randint(1, 10**5), rng.randint(0, 40)),
                                    "nth:0", "nth:%d" % rng.randint(1, 3314), "nth:%d" % (c20.MAX_N + 1),
                                    "st:%d" % rng.choice([1, 2, 3, 0]), "gt"]))
            continue
        toks.append("nth:%d" % n)
    return toks


def streams(ctx):
    rng = ctx.rng
    name = "history-nth-nearby"
    ops = ["hwinfo",
           # fixed scenarios: up, same, down by 10, down across the table regime, far jump, back within 100000
           "history nth:100000,nth:100050,nth:100050,nth:100040,nth:99999,nth:5000,nth:4999,nth:120000,nth:110001,nth:100000,nth:99990",
           "history nth:3316,nth:3315,nth:3314,nth:3315,nth:3316,nth:3315",
           "history nth:150000,nth:50000,nth:149999,nth:49999,nth:50001"]
    for _ in range(10 if ctx.quick else 150):
        ops.append("history " + ",".join(gen_nearby(rng, ctx.quick)))

    def classify(op, res):
        p = op.split()
        if p[0] != "history":
            return p[0]
        ns = [int(t[4:]) for t in p[1].split(",") if t.startswith("nth:") and LO <= int(t[4:]) <= HI]
        down = sum(1 for a, b in zip(ns, ns[1:]) if b < a and a - b <= 100000)
        return "nearby-decreasing-steps:%s" % ("0" if down == 0 else "1-5" if down <= 5 else ">5")

    return [Stream(name, ops, oracle=True, model_ops=c20.make_model_ops(name), classify=classify,
                   nontrivial=c20.nontrivial, timeout=600)]
