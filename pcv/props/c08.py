"""C08 — partial formulas equal their definitions; the two identities hold for all parameters."""
from ..runner import Stream
from .. import gen, p2loop

# WP p2b: loop structure of P2/B inside the model (PcProps/C08P2.lean; streams in pcv/p2loop.py)
EXTRA_MODULES = ["C08P2"]

RULE = ("each term (P2,P3,S1,S2_trivial,S2_easy,S2_hard,Sigma,B,Phi0,AC,D) through the internal entry point with EXPLICIT "
        "(y,z,k|c) — exhaustive small x × every admissible parameter choice, boundary-heavy sample beyond — against the naive "
        "defining sum evaluated by pcdrv (PcModel/Formulas.lean); identities S1+S2+pi(y)-1-P2 and A-B+C+D+Phi0+Sigma for x up to "
        "1e12 against the other decomposition; distinct = distinct op lines with x > 100")
TRUSTED = ["model side = executable defining sums PcModel/Formulas.lean; each is PROVED equal to its Pc.Spec definition and the "
           "totals are proved = pi(x) for all x and admissible parameters (PcProofs/Formulas*.lean, executable_dr_total / "
           "executable_gourdon_total); the tie of the C++ terms to them is this sampled correspondence"]
ASSUMPTIONS = ["explicit parameters are restricted to what the tuning options can produce"]
# extra property files PcProps/C08Leaf.lean, C08P2.lean are auto-discovered by the runner
RULE += "; " + p2loop.RULE_C08
TRUSTED = TRUSTED + p2loop.TRUSTED_P2B


def term_ops(x, y, z, k, yd, c, w, t):
    zd = x // yd
    return [
        "ident_gourdon %s %d %d %d %d %d" % (w, x, y, z, k, t),
        "ident_dr %s %d %d %d %d" % (w, x, yd, c, t),
    ]


def streams(ctx):
    rng = ctx.rng
    ops = []
    # exhaustive small scope: every x, every admissible (y, z) for Gourdon, every y for DR
    xmax = 220 if ctx.quick else 600
    for x in range(2, xmax + 1):
        x13, sq = gen.iroot(3, x), gen.isqrt(x)
        k = gen.get_k(x)
        ys = list(range(x13 + 1, sq)) or [gen.gourdon_yz(rng, x)[0]]
        for y in ys:
            for z in (range(y, max(sq, y + 1)) if sq - 1 >= y else [y]):
                ops.append("ident_gourdon 64 %d %d %d %d 1" % (x, y, z, k))
        x16 = max(gen.iroot(6, x), 1)
        for yd in range(max(x13, 1), x13 * x16 + 1):
            ops.append("ident_dr 64 %d %d %d 1" % (x, yd, gen.get_c(yd)))
    # leaves with x/(q r) = y exactly (easy/hard class boundary) need q >= 23, i.e. x >= ~19000: fixed cases
    for (x, yd) in ((19343, 29), (103678, 85), (19343 * 8, 58)):
        ops.append("ident_dr 64 %d %d %d 1" % (x, yd, gen.get_c(yd)))
        ops.append("ident_dr 128 %d %d %d 2" % (x, yd, gen.get_c(yd)))
    # boundary-heavy sample up to 2e7 (model-side table bound) with single terms and identities
    n = 250 if ctx.quick else 1500
    for x in gen.structured_x(rng, 200, 2 * 10 ** 7, n):
        y, z = gen.gourdon_yz(rng, x)
        k = gen.get_k(x)
        yd = gen.dr_y(rng, x)
        c = gen.get_c(yd)
        w = rng.choice(("64", "128"))
        t = rng.choice((1, 2, 5, 16))
        ops += term_ops(x, y, z, k, yd, c, w, t)
        if x <= 3 * 10 ** 6:
            a = len([p for p in gen.primes_upto(max(yd, 2)) if p <= yd])
            ops.append("P2 %s %d %d %d %d" % (w, x, yd, a, t))
            ops.append("S1 %s %d %d %d %d" % (w, x, yd, c, t))
            ops.append("Sigma %s %d %d %d" % (w, x, y, t))
            ops.append("B %s %d %d %d" % (w, x, y, t))
            ops.append("Phi0 %s %d %d %d %d %d" % (w, x, y, z, k, t))
            y3 = rng.randint(1, max(1, gen.iroot(3, x)))
            a3 = len([p for p in gen.primes_upto(max(y3, 2)) if p <= y3])
            ops.append("P3 64 %d %d %d %d" % (x, y3, a3, t))

    def nontrivial(op, res):
        return op if int(op.split()[2]) > 100 else None

    st1 = Stream("terms_vs_definitions", ops, oracle=True, nontrivial=nontrivial,
                 classify=lambda op, r: op.split()[0], timeout=900)

    # identities at larger x: both decompositions with random admissible parameters must give the same total
    ops2 = []
    n2 = 60 if ctx.quick else 400
    hi = 10 ** 11 if ctx.quick else 10 ** 13
    for x in gen.structured_x(rng, 10 ** 8, hi, n2):
        y, z = gen.gourdon_yz(rng, x, 0.3)
        yd = gen.dr_y(rng, x, 0.3)
        # keep DR's y moderate: its run time grows with alpha
        yd = min(yd, gen.iroot(3, x) * 20)
        w = rng.choice(("64", "128"))
        t = rng.choice((1, 3, 16))
        ops2.append("ident_gourdon %s %d %d %d %d %d" % (w, x, y, z, gen.get_k(x), t))
        ops2.append("ident_dr %s %d %d %d %d" % (w, x, yd, gen.get_c(yd), t))
        ops2.append("alg gourdon64 %d %d" % (x, t))

    def judge(ops, impl, mops, model):
        dis = []
        for i in range(0, len(ops), 3):
            tot = [impl[i].split()[-1], impl[i + 1].split()[-1], impl[i + 2]]
            if len(set(tot)) != 1:
                dis.append(dict(index=i, op=" ; ".join(ops[i:i + 3]), impl=" | ".join(impl[i:i + 3]),
                                model="all three totals must be equal (= pi(x))"))
        return dis

    st2 = Stream("identities_large_x", ops2, oracle=True, judge=judge,
                 model_ops=lambda ops, impl: ["# " + o for o in ops], timeout=1500,
                 classify=lambda op, r: op.split()[0])
    from . import c08leaf
    from . import c08hard
    return [st1, st2, cli_stream(ctx)] + c08leaf.streams(ctx) + p2loop.c08_streams(ctx) + c08hard.streams(ctx)


def cli_stream(ctx):
    """"every partial formula the CLI can print": the command line wrappers of src/app/main.cpp derive (y, z, k | c)
    themselves from --alpha / --alpha-y / --alpha-z. With --status each wrapper prints the parameters it uses: they
    must be the parameters the LIBRARY derives from the same tuning values (params_* ops); each printed term must equal
    the defining sum for those parameters (x <= 2e7) and the printed terms must add up to pi(x) (all x)."""
    import re
    rng = ctx.rng
    ops, groups = [], []

    def fmt(m):
        return "%d.%03d" % (m // 1000, m % 1000)

    def parse(res):
        """pi_cli result -> (value or None, {name: int}) ; stdout arrives with blanks/newlines canonicalised to '_'"""
        p = res.split(":")
        if len(p) < 2 or p[0] != "0":
            return None, {}
        out = p[1]
        vars_ = {m.group(1): int(m.group(2)) for m in re.finditer(r"_([a-z_]+?)_=_(-?\d+)(?=_)", out)}
        vals = re.findall(r"_=_(-?\d+)_Seconds", out) or re.findall(r"(?:^|_)(-?\d+)$", out)
        return (vals[-1] if vals else None), vars_

    GT = ("--Sigma", "--Phi0", "--AC", "--B", "--D")
    DT = ("--S1", "--S2-trivial", "--S2-easy", "--S2-hard", "--P2")

    def add_group(kind, x, pop, flags, terms):
        start = len(ops)
        ops.append(pop)
        for term in terms:
            ops.append("pi_cli %d %s -s -t%d %s" % (x, term, rng.choice((1, 2)), " ".join(flags)))
        if kind == "G":
            ops.append("alg gourdon64 %d 4" % x)
        groups.append((kind, start, x))

    n = 14 if ctx.quick else 150
    for x in gen.structured_x(rng, 3 * 10 ** 5, 2 * 10 ** 7, n):
        x16m = max(1, gen.iroot(6, x)) * 1000
        ay = rng.choice((-1, 1000, 1000, rng.randint(1000, x16m), x16m, 2 * x16m))
        az = rng.choice((-1, 1000, rng.randint(1000, 4000), 3000, x16m))
        add_group("g", x, "params_gourdon %d %d %d" % (x, ay, az),
                  ([] if ay < 0 else ["--alpha-y=" + fmt(ay)]) + ([] if az < 0 else ["--alpha-z=" + fmt(az)]), GT)
        al = rng.choice((-1, 1000, rng.randint(1000, x16m), x16m, 2 * x16m))
        add_group("d", x, "params_dr %d %d" % (x, al), [] if al < 0 else ["--alpha=" + fmt(al)], DT)
    # larger x (beyond the defining-sum evaluator): parameters as the library derives them + terms add up to pi(x);
    # every combination of {default, minimum, middle, maximum} alpha_y with {default, 1, middle, large} alpha_z at least
    # once (the clamps of y and z interact: alpha_y = 1 makes the clamp y = x13 + 1 active while z = y * alpha_z)
    for i, x in enumerate(gen.structured_x(rng, 10 ** 9, 10 ** 12, 16 if ctx.quick else 128)):
        x16m = max(1, gen.iroot(6, x)) * 1000
        ay = (-1, 1000, rng.randint(1001, x16m), x16m)[i % 4]
        az = (-1, 1000, rng.randint(1001, 4000), rng.choice((2000, 2500, 3000, 5000)))[(i // 4) % 4]
        add_group("G", x, "params_gourdon %d %d %d" % (x, ay, az),
                  ([] if ay < 0 else ["--alpha-y=" + fmt(ay)]) + ([] if az < 0 else ["--alpha-z=" + fmt(az)]), GT)

    def model_ops(ops_, impl):
        out = ["# " + o for o in ops_]
        for kind, st, x in groups:
            r = impl[st].split()
            if kind == "g" and len(r) >= 4:
                out[st] = "ident_gourdon 64 %d %s %s %s 1" % (x, r[0], r[1], r[2])
            elif kind == "d" and len(r) >= 3 and int(r[0]) > 0:
                out[st] = "ident_dr 64 %d %s %s 1" % (x, r[0], r[2])
        return out

    def judge(ops_, impl, mops, model):
        dis = []
        for kind, st, x in groups:
            lib = impl[st].split()
            cli, bad_params = [], []
            for j in range(1, 6):
                v, vars_ = parse(impl[st + j])
                cli.append(v if v is not None else "ERR(%s)" % impl[st + j][:60])
                # the parameters the wrapper printed vs the library's
                names = ("y", "z", "k") if kind in ("g", "G") else ("y", "z", "c")
                for nm, want in zip(names, lib[:3]):
                    if nm in vars_ and str(vars_[nm]) != want:
                        bad_params.append("%s: %s=%d, library derives %s" % (ops_[st + j], nm, vars_[nm], want))
            if bad_params:
                dis.append(dict(index=st, op=ops_[st + 1 + 0] if not bad_params else bad_params[0].split(": ")[0],
                                impl="; ".join(bad_params)[:600], model="parameters of %s: %s" % (ops_[st], " ".join(lib[:4]))))
                continue
            if kind == "G":
                try:
                    sg, p0, ac, b, d = map(int, cli)
                    tot = ac - b + d + p0 + sg
                except ValueError:
                    tot = None
                if str(tot) != impl[st + 6]:
                    dis.append(dict(index=st, op=" ; ".join(ops_[st + 1:st + 6]), impl="terms %s sum %s" % (" ".join(cli), tot),
                                    model="A+C - B + D + Phi0 + Sigma = pi(x) = %s" % impl[st + 6]))
                continue
            m = model[st].split()
            if len(m) < 6:
                dis.append(dict(index=st, op=ops_[st], impl=impl[st], model=model[st]))
                continue
            exp = m[:5]      # gourdon: sigma phi0 ac b d ; dr: s1 trivial easy hard p2
            if cli != exp:
                bad = [ops_[st + 1 + j] for j in range(5) if cli[j] != exp[j]]
                dis.append(dict(index=st, op=" ; ".join(bad), impl=" ".join(cli), model=" ".join(exp), params=impl[st]))
        return dis
    return Stream("cli_terms", ops, oracle=True, model_ops=model_ops, judge=judge, timeout=1800,
                  classify=lambda o, r: o.split()[2] if o.startswith("pi_cli") else o.split()[0])
