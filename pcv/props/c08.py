"""C08 — partial formulas equal their definitions; the two identities hold for all parameters."""
from ..runner import Stream
from .. import gen

RULE = ("each term (P2,P3,S1,S2_trivial,S2_easy,S2_hard,Sigma,B,Phi0,AC,D) through the internal entry point with EXPLICIT "
        "(y,z,k|c) — exhaustive small x × every admissible parameter choice, boundary-heavy sample beyond — against the naive "
        "defining sum evaluated by pcdrv (PcModel/Formulas.lean); identities S1+S2+pi(y)-1-P2 and A-B+C+D+Phi0+Sigma for x up to "
        "1e12 against the other decomposition; distinct = distinct op lines with x > 100")
TRUSTED = ["model side = executable defining sums PcModel/Formulas.lean; each is PROVED equal to its Pc.Spec definition and the "
           "totals are proved = pi(x) for all x and admissible parameters (PcProofs/Formulas*.lean, executable_dr_total / "
           "executable_gourdon_total); the tie of the C++ terms to them is this sampled correspondence"]
ASSUMPTIONS = ["explicit parameters are restricted to what the tuning options can produce"]


def term_ops(x, y, z, k, yd, c, w, t):
    zd = x // yd
    return [
        "ident_gourdon %s %d %d %d %d %d" % (w, x, y, z, k, t),
        "ident_dr %s %d %d %d %d" % (w, x, yd, c, t),
    ]


def streams(ctx):
    rng = ctx.rng
    ops = []
    # exhaustive small scope: every x, every admissible (y, z) for Gourdon, every y for DR
    xmax = 220 if ctx.quick else 600
    for x in range(2, xmax + 1):
        x13, sq = gen.iroot(3, x), gen.isqrt(x)
        k = gen.get_k(x)
        ys = list(range(x13 + 1, sq)) or [gen.gourdon_yz(rng, x)[0]]
        for y in ys:
            for z in (range(y, max(sq, y + 1)) if sq - 1 >= y else [y]):
                ops.append("ident_gourdon 64 %d %d %d %d 1" % (x, y, z, k))
        x16 = max(gen.iroot(6, x), 1)
        for yd in range(max(x13, 1), x13 * x16 + 1):
            ops.append("ident_dr 64 %d %d %d 1" % (x, yd, gen.get_c(yd)))
    # leaves with x/(q r) = y exactly (easy/hard class boundary) need q >= 23, i.e. x >= ~19000: fixed cases
    for (x, yd) in ((19343, 29), (103678, 85), (19343 * 8, 58)):
        ops.append("ident_dr 64 %d %d %d 1" % (x, yd, gen.get_c(yd)))
        ops.append("ident_dr 128 %d %d %d 2" % (x, yd, gen.get_c(yd)))
    # boundary-heavy sample up to 2e7 (model-side table bound) with single terms and identities
    n = 250 if ctx.quick else 1500
    for x in gen.structured_x(rng, 200, 2 * 10 ** 7, n):
        y, z = gen.gourdon_yz(rng, x)
        k = gen.get_k(x)
        yd = gen.dr_y(rng, x)
        c = gen.get_c(yd)
        w = rng.choice(("64", "128"))
        t = rng.choice((1, 2, 5, 16))
        ops += term_ops(x, y, z, k, yd, c, w, t)
        if x <= 3 * 10 ** 6:
            a = len([p for p in gen.primes_upto(max(yd, 2)) if p <= yd])
            ops.append("P2 %s %d %d %d %d" % (w, x, yd, a, t))
            ops.append("S1 %s %d %d %d %d" % (w, x, yd, c, t))
            ops.append("Sigma %s %d %d %d" % (w, x, y, t))
            ops.append("B %s %d %d %d" % (w, x, y, t))
            ops.append("Phi0 %s %d %d %d %d %d" % (w, x, y, z, k, t))
            y3 = rng.randint(1, max(1, gen.iroot(3, x)))
            a3 = len([p for p in gen.primes_upto(max(y3, 2)) if p <= y3])
            ops.append("P3 64 %d %d %d %d" % (x, y3, a3, t))

    def nontrivial(op, res):
        return op if int(op.split()[2]) > 100 else None

    st1 = Stream("terms_vs_definitions", ops, oracle=True, nontrivial=nontrivial,
                 classify=lambda op, r: op.split()[0], timeout=900)

    # identities at larger x: both decompositions with random admissible parameters must give the same total
    ops2 = []
    n2 = 60 if ctx.quick else 400
    hi = 10 ** 11 if ctx.quick else 10 ** 13
    for x in gen.structured_x(rng, 10 ** 8, hi, n2):
        y, z = gen.gourdon_yz(rng, x, 0.3)
        yd = gen.dr_y(rng, x, 0.3)
        # keep DR's y moderate: its run time grows with alpha
        yd = min(yd, gen.iroot(3, x) * 20)
        w = rng.choice(("64", "128"))
        t = rng.choice((1, 3, 16))
        ops2.append("ident_gourdon %s %d %d %d %d %d" % (w, x, y, z, gen.get_k(x), t))
        ops2.append("ident_dr %s %d %d %d %d" % (w, x, yd, gen.get_c(yd), t))
        ops2.append("alg gourdon64 %d %d" % (x, t))

    def judge(ops, impl, mops, model):
        dis = []
        for i in range(0, len(ops), 3):
            tot = [impl[i].split()[-1], impl[i + 1].split()[-1], impl[i + 2]]
            if len(set(tot)) != 1:
                dis.append(dict(index=i, op=" ; ".join(ops[i:i + 3]), impl=" | ".join(impl[i:i + 3]),
                                model="all three totals must be equal (= pi(x))"))
        return dis

    st2 = Stream("identities_large_x", ops2, oracle=True, judge=judge,
                 model_ops=lambda ops, impl: ["# " + o for o in ops], timeout=1500,
                 classify=lambda op, r: op.split()[0])
    return [st1, st2]
