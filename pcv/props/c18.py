"""C18 — the bundled prime sieve enumerates and counts primes exactly (iterator / API layer; WP iter).

Real side: harness/ops_iter.cpp (a real primesieve::iterator driven through its public interface, the real
count_primes / generate_primes / generate_n_primes / nth_prime, the real private ParallelSieve::align / getThreadDistance).
Model side (pcdrv, PcModel/Drv/Iter.lean), per `it` op TWO answers:
  * mirror (`it_m`): the L2 state machine PcModel/Iter.lean (iterator.cpp + IteratorHelper.cpp + the table path of
    PrimeGenerator.cpp, uint64 exact, floats recomputed with Lean `Float`) over the proved window-sieve oracle, with the
    batch sizes of fillNextPrimes taken from the real run as an admissible choice;
  * spec (`it_abs`): the ABSTRACT cursor of `history_correct` (k-th next = k-th prime >= start, …) evaluated lazily by
    the same proved oracle (Miller-Rabin with 12 fixed bases above 10^14).
real != spec is a failing input of the property; mirror != real = spec is a defect of the model / a retuning (no failing
input).
"""
import math
from ..runner import Stream
from .. import gen

UMAX = 2 ** 64 - 1
LASTP = 18446744073709551557      # largest prime below 2^64
SIEVE_CAP = 10 ** 14              # PcModel/IterExec.lean sieveCap

RULE = ("`it`: (a) EXHAUSTIVE: every start <= 120 (thorough 800: the whole smallPrimes table) x every script over {n,p} of "
        "length <= 4 (quick) / 5, plus every 5th (thorough: every) start <= 800 with hinted scripts; (b) structured starts {0..100, 719+-3, 2^32+-, "
        "2^48+-, 10^12, 10^13, 2^62+-, 2^63+-, p*q of two 32-bit primes +-, 2^64-2^33+-, the last primes below 2^64} x stop "
        "hints {UINT64_MAX, 0, < start, = start, start + small, start + 10^4, far above} x scripts {runs n*K / p*K, random "
        "interleavings with direction changes right after a refill, at i_ = 0 and i_ = size_-1, after jump_to, g / G calls}; "
        "every op is answered by the L2 mirror (exact window bounds in mode w) AND by the abstract cursor; `pscount` "
        "intervals to 10^8 (quick) / 10^10 (thorough) with 1, 2, 5, 16 threads incl. intervals starting at 0..7 and empty "
        "ones; `psintervals` to 2^64-1; generate_primes / generate_n_primes for vector<u64|i64|u32|i32> incl. the narrow-"
        "type error and stop >= the last 64-bit prime; nth_prime(n, start) for n in [-10^5, 10^6] incl. error cases; "
        "distinct = distinct op lines")
TRUSTED = ["sieving core of primesieve (Erat*, PreSieve, SievingPrimes, bit extraction in fillNextPrimes / fillPrevPrimes) is "
           "NOT modelled here: it enters as the contract GenSpec (a PrimeGenerator(a, b) delivers exactly the primes of [a, b], "
           "increasing, in batches of any size) and is tied by these streams against the proved window sieve (WP core models it)",
           "float-derived integers (sqrt(start), log(stop), sqrt(stop)*2, maxPrimeGap, primePiApprox, nthPrimeApprox, avgPrimeGap) "
           "are parameters of every theorem; the driver recomputes the first four with Lean Float (same libm) and receives "
           "primePiApprox / nthPrimeApprox from the harness",
           "batch sizes of fillNextPrimes are reported by the harness and used by the mirror as an admissible choice",
           "above 10^14 the executable oracle is a deterministic Miller-Rabin test (bases 2..37; literature: deterministic below "
           "3.3e24); below it the proved window sieve (windowListWith_spec, wheelBase_complete)",
           "the executable instance execEnv satisfies GenSpec: observed by the mirror = spec comparison of every op, proved only "
           "for the sieve-based `primes` (winCore) — the chunked firstK is not proved",
           "after a primesieve_error the iterator is not modelled (the history ends)",
           "harness/ops_iter.cpp reads IteratorData through iterator::memory_ and reaches ParallelSieve::align / getThreadDistance "
           "with `#define private public`"]
ASSUMPTIONS = ["start, stop_hint < 2^64; histories end at the first primesieve_error",
               "memory_ == nullptr and a freshly reset IteratorData are the same model state (same observable behaviour)",
               "unhinted prev_prime above 10^13 is compared with the abstract cursor only (the mirror would have to list a window "
               "of 2*sqrt(n) numbers)"]


try:                                   # WP core: sieving core (Erat*, PreSieve, bit extraction) — optional
    from . import c18core
except ImportError:
    c18core = None
EXTRACTORS = list(getattr(c18core, "EXTRACTORS", [])) if c18core is not None else []


def generated_obligations():
    return (getattr(c18core, "generated_obligations", lambda: 0)() if c18core is not None else 0) + _psiter_obligations()


# WP iter2: translator/extract_psiter.py pins the literals of PcModel/Iter.lean (smallPrimes / primePi tables, getNextDist /
# getPrevDist constants, max_n, maxPrime64bits, k-tuplet table) to /repo; obligations PcGen/PsIterObl.lean, built through
# PcProps/C18Tables.lean
EXTRACTORS.append("extract_psiter")


def _psiter_obligations():
    import os
    import sys
    from .. import core
    tdir = os.path.join(core.ROOT, "translator")
    if tdir not in sys.path:
        sys.path.insert(0, tdir)
    import extract_psiter
    return extract_psiter.count_obligations()


def _pp(n):
    from ..pi_common import _is_probable_prime
    return _is_probable_prime(n)


def _prime32(rng):
    while True:
        p = rng.randrange(2 ** 31, 2 ** 32) | 1
        if _pp(p):
            return p


def hints(rng, start):
    hs = [UMAX, 0, start, max(0, start - 1), max(0, start - rng.randint(2, 5000)), min(UMAX, start + rng.randint(1, 200)),
          min(UMAX, start + 10 ** 4), min(UMAX, start + rng.randint(10 ** 5, 10 ** 7)), UMAX - 1]
    return hs


def rand_script(rng, maxrun, allow_g=True, jumps=None):
    """random interleaving; direction changes right after refills (first op after start / jump), at buffer ends"""
    toks = []
    for _ in range(rng.randint(1, 8)):
        k = rng.random()
        if k < 0.30:
            toks.append("n" if rng.random() < 0.5 else "n*%d" % rng.randint(2, maxrun))
        elif k < 0.60:
            toks.append("p" if rng.random() < 0.5 else "p*%d" % rng.randint(2, maxrun))
        elif k < 0.75:
            toks += rng.choice((["n", "p", "p", "n"], ["p", "n", "n", "p"], ["n", "p"], ["p", "n"], ["n", "p", "n", "p", "p"]))
        elif k < 0.85 and allow_g:
            toks.append(rng.choice(("g", "g", "G")))
        elif k < 0.95 and jumps:
            a, h = jumps(rng)
            toks.append("j:%d:%d" % (a, h))
        else:
            toks.append("c") if rng.random() < 0.3 else toks.append("n")
    return toks


def structured_starts(rng, quick):
    s = set(range(0, 101))
    s.update(range(715, 725))
    for c in (2 ** 32, 10 ** 6, 10 ** 9, 2 ** 40):
        s.update(c + d for d in (-2, -1, 0, 1, 2))
        s.add(c + rng.randint(-10 ** 4, 10 ** 4))
    for c in (10 ** 12, 10 ** 13 - 7):
        s.update((c, c + 1, c - 1))
    for _ in range(6 if quick else 40):
        s.add(int(math.exp(rng.uniform(math.log(1000), math.log(10 ** 13)))))
    return sorted(s)


def big_starts(rng, quick):
    if quick:      # every refill up there costs the real code 1-2 s: one start per region
        pq = _prime32(rng) * _prime32(rng)
        while pq >= UMAX - 2 ** 34:
            pq = _prime32(rng) * _prime32(rng)
        return sorted((2 ** 62 + rng.randint(-10 ** 6, 10 ** 6), 2 ** 63 - 1, pq - 1, 2 ** 64 - 2 ** 33 - rng.randint(2, 10 ** 6)))
    s = set()
    for c in (2 ** 48, 2 ** 62, 2 ** 63):
        s.update((c - 1, c + rng.randint(-10 ** 6, 10 ** 6)) if quick else (c - 1, c, c + 1, c + rng.randint(-10 ** 6, 10 ** 6)))
    for _ in range(1 if quick else 8):
        pq = _prime32(rng) * _prime32(rng)
        if pq < UMAX - 2 ** 34:
            s.update((pq - 1, pq) if quick else (pq - 1, pq, pq + 1))
    s.update((2 ** 64 - 2 ** 33 - 1, 2 ** 64 - 2 ** 33 - rng.randint(2, 10 ** 6)))
    return sorted(s)


def it_ops(ctx):
    rng, q = ctx.rng, ctx.quick
    ex, st, big, end = [], [], [], []
    # (a) exhaustive small scope
    top = 120 if q else 800
    maxlen = 4 if q else 5
    scripts = []
    for L in range(1, maxlen + 1):
        for m in range(2 ** L):
            scripts.append(" ".join("np"[(m >> i) & 1] for i in range(L)))
    for s0 in range(top + 1):
        for sc in scripts:
            ex.append("it %s %d %d %s" % ("w" if (s0 + len(sc)) % 3 == 0 else "v", s0, UMAX, sc))
    for s0 in range(0, 801, 5 if q else 1):
        h = rng.choice(hints(rng, s0))
        ex.append("it w %d %d %s" % (s0, h, " ".join(rand_script(rng, 40))))
    # (b) structured starts x hints x scripts
    def jumps(r):
        a = r.choice((0, 1, 2, 3, 100, 719, 720, 721, r.randint(0, 10 ** 6), r.randint(0, 10 ** 10)))
        return a, r.choice(hints(r, a))
    sstarts = structured_starts(rng, q)
    if q:      # quick: every 4th small start, all boundary starts, few big ones (model cost grows with sqrt(start))
        sstarts = [x for x in sstarts if (x <= 100 and x % 4 == 0) or 100 < x <= 10 ** 10] + \
                  rng.sample([x for x in sstarts if x > 10 ** 10], 3)
    for s0 in sstarts:
        hs = hints(rng, s0)
        for h in (hs if not q else rng.sample(hs, 2)):
            mode = rng.choice("vw")
            # the model's buffer is a List (indexing costs O(i_)): keep runs short where backward windows hold 10^5 primes
            maxrun = (300 if q else 1500) if s0 < 10 ** 8 else 60 if s0 < 10 ** 11 else 25
            st.append("it %s %d %d %s" % (mode, s0, h, " ".join(rand_script(rng, maxrun, jumps=jumps))))
    # buffer ends: walk exactly one batch (size known only at run time: long runs cross several refills), then turn around
    for s0 in ((0, 10 ** 6) if q else (0, 1000, 10 ** 6, 2 ** 32 - 5000)):
        st.append("it w %d %d n*1030 p*3 n*5 p*1100 n*3" % (s0, UMAX))
        st.append("it w %d %d p*3 n*5 p*40 n*2000 p*2001 n" % (s0 + 10 ** 5, UMAX))
        st.append("it v %d %d g g n p p G p n" % (s0, s0 + 50000))
    # more than 1024 primes out of ONE forward window, then back past index 0 of a LATER batch of that window
    # (generate_prev_primes must continue below primes.front(), not below the window start)
    st.append("it v 0 %d n*5000 p*3000 n*10" % UMAX)
    st.append("it w 400000000 %d n*2100 p*1200 n*3" % UMAX)
    st.append("it v 1000 4000000 n*2500 p*2400 n" )
    # (c) large starts: hinted (small windows) for both directions, unhinted forward only
    for s0 in big_starts(rng, q):
        up = min(UMAX - 1, s0 + rng.randint(100, 3000))
        dn = max(0, s0 - rng.randint(100, 3000))
        # never step BELOW the first hinted window here: an unhinted backward refill lists 2*sqrt(n) numbers (1 GB at 2^63)
        k = rng.randint(2, 25)
        fwd = "it w %d %d n*%d p*%d n" % (s0, up, k, rng.randint(1, k - 1))
        k = rng.randint(1, 12)
        bwd = "it w %d %d p*%d n*%d p p" % (s0, dn, k, rng.randint(1, 20))
        big += [fwd, bwd] if not q else [rng.choice((fwd, bwd))]      # every refill up there costs the real code 1-2 s
        if not q:
            big.append("it v %d %d n*%d p n g" % (s0, UMAX, rng.randint(1, 40)))
    big.append("it v %d %d n*2500 p*600" % (2 ** 48, UMAX))               # same, where one window holds 5e5 primes
    if not q:
        big.append("it v %d %d p*3 n*4" % (2 ** 48 + 12345, UMAX))          # unhinted prev: window of 3.3e7 numbers
    # (d) the end of the 64-bit range
    if q:
        end += ["it v %d %d n*12" % (LASTP - 200, UMAX), "it w %d %d n n p" % (LASTP, UMAX - 1),
                "it v %d %d p*4 n*8" % (UMAX, UMAX - 500), "it v %d %d n" % (LASTP + 1, UMAX)]
    for s0 in (() if q else (LASTP - 200, LASTP - 1, LASTP, LASTP + 1, UMAX - 1, UMAX)):
        end.append("it v %d %d n*12" % (s0, UMAX))
        end.append("it w %d %d n n p" % (s0, UMAX - 1))
        end.append("it v %d %d p*4 n*8" % (s0, max(0, s0 - 500)))
    return ex, st, big, end


def it_stream(name, ops, timeout=1500, env=None):
    def sizes_of(impl_line):
        if " | " not in impl_line and not impl_line.endswith(" |"):
            return "-"
        tail = impl_line.split("|", 1)[1].split()
        return ",".join(tail) if tail else "-"

    def model_ops(ops_, impl):
        out = []
        for o, a in zip(ops_, impl):
            f = o.split()
            out.append("it_m %s %s %s %s %s" % (f[1], f[2], f[3], sizes_of(a), " ".join(f[4:])))
            if any(t[0] in "gG" for t in f[4:]):
                out.append("#")
            else:
                out.append("it_abs %s %s %s" % (f[2], f[3], " ".join(f[4:])))
        return out

    def values(line):
        return [t.split("@")[0] for t in line.split("|")[0].split()]

    def judge(ops_, impl, mops, model):
        dis = []
        for i, o in enumerate(ops_):
            a = impl[i]
            if a in ("HANG", "CRASH", "SKIPPED"):
                continue
            mir = model[2 * i] if 2 * i < len(model) else "?"
            spec = model[2 * i + 1] if 2 * i + 1 < len(model) else "?"
            if spec != "#" and not spec.startswith("MODEL-CRASH") and values(a) != spec.split():
                dis.append(dict(index=i, op=o, impl=" ".join(values(a)), model=spec + "   [abstract cursor; mirror: %s]" % mir[:300],
                                oracle=True))
            elif mir == "ERR:model-bound":
                continue
            elif a != mir:
                dis.append(dict(index=i, op=o, impl=a[:600], model=mir[:600], oracle=False))
        return dis

    def classify(o, r):
        f = o.split()
        s0 = int(f[2])
        c = "start<=719" if s0 <= 719 else "start<1e9" if s0 < 10 ** 9 else "start<1e14" if s0 < SIEVE_CAP else "start>=1e14"
        h = int(f[3])
        hk = "hint=max" if h == UMAX else "hint<start" if h < s0 else "hint=start" if h == s0 else "hint>start"
        return c + "," + hk + "," + f[1]

    return Stream(name, ops, oracle=False, model_ops=model_ops, judge=judge, classify=classify, timeout=timeout, env=env)


def count_ops(ctx):
    rng, q = ctx.rng, ctx.quick
    ops = []
    for a in range(0, 9):
        for b in (0, 1, 2, 3, 4, 5, 6, 7, 8, 10, 11, 13, 17, 18, 30, 100):
            ops.append("pscount %d %d %d" % (a, b, rng.choice((1, 2, 5, 16))))
    if q:
        ops.append("pscount 0 100000000 16")
        a = rng.randint(0, 10 ** 9)
        ops.append("pscount %d %d 2" % (a, a + rng.randint(2 * 10 ** 7, 3 * 10 ** 7)))
        a = rng.randint(10 ** 11, 10 ** 12)
        ops.append("pscount %d %d 5" % (a, a + 2 * 10 ** 7 + rng.randint(0, 10 ** 6)))
        ops.append("pscount 5 %d 1" % (2 * 10 ** 7 + rng.randint(0, 10 ** 6)))
    for t in (() if q else (1, 2, 5, 16)):
        ops.append("pscount 0 %d %d" % (10 ** 9, t))
        ops.append("pscount 0 %d %d" % (10 ** 8, t))
        a = rng.randint(0, 10 ** 9)
        ops.append("pscount %d %d %d" % (a, a + rng.randint(2 * 10 ** 7, 6 * 10 ** 7), t))
        a = rng.randint(10 ** 11, 10 ** 12)
        ops.append("pscount %d %d %d" % (a, a + 3 * 10 ** 7 + rng.randint(0, 10 ** 6), t))
    for _ in range(20 if q else 200):
        a = int(math.exp(rng.uniform(0, math.log(10 ** 12))))
        ops.append("pscount %d %d %d" % (a, a + rng.choice((0, 1, 29, 30, 31, 1000, rng.randint(0, 10 ** 6))), rng.choice((1, 2, 5, 16))))
    ops.append("pscount 100 10 4")
    if not q:
        ops.append("pscount 0 %d 16" % 10 ** 10)
        ops.append("pscount %d %d 5" % (10 ** 10 - 12345, 2 * 10 ** 10))
    return ops


def interval_ops(ctx):
    rng, q = ctx.rng, ctx.quick
    ops = []
    for _ in range(300 if q else 3000):
        b = int(math.exp(rng.uniform(math.log(10 ** 7), math.log(2 ** 64 - 2))))
        k = rng.random()
        if k < 0.4:
            a = rng.randint(0, b)
        elif k < 0.7:
            a = max(0, b - rng.randint(1, 10 ** 9))
        else:
            a = max(0, b - rng.choice((2, 3, 5, 16, 17)) * 10 ** 7 - rng.randint(-60, 60))
        ops.append("psintervals %d %d %d" % (a, b, rng.choice((1, 2, 3, 5, 16, 64, 1000))))
    for b in (UMAX, UMAX - 1, UMAX - 31, UMAX - 32, UMAX - 33):
        for t in (2, 16, 1000):
            ops.append("psintervals %d %d %d" % (b - rng.randint(2 * 10 ** 10, 10 ** 12), b, t))
            ops.append("psintervals 0 %d %d" % (b, t))
    return ops


def gen_ops(ctx):
    rng, q = ctx.rng, ctx.quick
    ops = []
    for a in (0, 1, 2, 3, 5, 7, 100, 719, 720, 721):
        for b in (0, 1, 2, 3, 10, 100, 719, 720, 721, 1000, 10 ** 5):
            ops.append("psgen %s %d %d" % (rng.choice(("u64", "i64", "u32", "i32")), a, b))
    for ty, vmax in (("u32", 2 ** 32 - 1), ("i32", 2 ** 31 - 1), ("i64", 2 ** 63 - 1)):
        for b in (vmax - 1, vmax, vmax + 1):
            ops.append("psgen %s %d %d" % (ty, max(0, b - 3000), b))
    for b in ((LASTP - 1, LASTP) if q else (LASTP - 1, LASTP, LASTP + 1, UMAX - 1, UMAX)):
        ops.append("psgen u64 %d %d" % (LASTP - 3000, b))
        if not q or b == LASTP:
            ops.append("psgen u64 %d %d" % (b, UMAX))
    for _ in range(40 if q else 400):
        a = int(math.exp(rng.uniform(0, math.log(10 ** 13))))
        ops.append("psgen u64 %d %d" % (a, a + rng.randint(0, 3 * 10 ** 5)))
    ops.append("psgen u64 0 %d" % (10 ** 6 if q else 5 * 10 ** 7))
    for s0 in ((2 ** 63 - 1000,) if q else (2 ** 62 + 5, 2 ** 63 - 1000, 2 ** 64 - 2 ** 33 - 9)):
        ops.append("psgen u64 %d %d" % (s0, s0 + 2000))
    return ops


def nth_hint(n, start):
    x = max(6.0, float(n), float(start))
    logn = math.log(x)
    return int(n * (logn + math.log(logn))) % 2 ** 64


def genn_ops(ctx):
    rng, q = ctx.rng, ctx.quick
    ops = []
    for n in (0, 1, 2, 3, 10, 127, 128, 129, 1023, 1024, 1025, 2048, 5000):
        for s0 in (0, 2, 3, 100, 719, 720, 10 ** 6):
            ops.append("psgenn %s %d %d" % (rng.choice(("u64", "i64", "u32", "i32")), n, s0))
    for ty, vmax in (("u32", 2 ** 32 - 1), ("i32", 2 ** 31 - 1)):
        for n in (1, 5, 50, 200, 2000):
            ops.append("psgenn %s %d %d" % (ty, n, vmax - 1000))
    for _ in range(30 if q else 300):
        ops.append("psgenn u64 %d %d" % (rng.randint(1, 20000), int(math.exp(rng.uniform(0, math.log(10 ** 13))))))
    for s0 in ((2 ** 62 + 5,) if q else (2 ** 62 + 5, 2 ** 63 - 1000, 2 ** 64 - 2 ** 33 - 9)):
        ops.append("psgenn u64 %d %d" % (rng.randint(1, 30), s0))
    ops.append("psgenn u64 3 %d" % (LASTP - 200))
    return ops


def nth_ops(ctx):
    rng, q = ctx.rng, ctx.quick
    ops = []
    for n in list(range(-12, 13)):
        for s0 in (0, 1, 2, 3, 10, 11, 12, 13, 100):
            ops.append("psnth %d %d" % (n, s0))
    for _ in range(60 if q else 600):
        n = rng.choice((rng.randint(1, 100), rng.randint(1, 10 ** 4), rng.randint(1, 10 ** 6 if q else 10 ** 7)))
        s0 = rng.choice((0, rng.randint(0, 10 ** 6), int(math.exp(rng.uniform(0, math.log(10 ** 12))))))
        ops.append("psnth %d %d" % (n, s0))
    for _ in range(40 if q else 400):
        s0 = int(math.exp(rng.uniform(math.log(10), math.log(10 ** 12))))
        n = rng.choice((rng.randint(1, 50), rng.randint(1, 10 ** 4), rng.randint(1, 10 ** 5)))
        ops.append("psnth %d %d" % (-min(n, s0 + 1), s0))
    ops += ["psnth 425656284035217744 0", "psnth -5 5", "psnth -5 4", "psnth -4 12", "psnth -6 12", "psnth -5 12", "psnth 0 0",
            "psnth 0 100", "psnth 1 %d" % (LASTP - 1), "psnth 2 %d" % (LASTP - 1), "psnth 1 %d" % LASTP]
    return ops


def streams(ctx):
    ex, st, big, end = it_ops(ctx)
    sts = [it_stream("it-exhaustive", ex), it_stream("it-structured", st),
           it_stream("it-large", big, timeout=3000, env={"PCV_OP_TIMEOUT": "300"}), it_stream("it-end-of-range", end, timeout=3000, env={"PCV_OP_TIMEOUT": "300"})]
    sts.append(Stream("ps-count", count_ops(ctx), oracle=True, timeout=3000, env={"PCV_OP_TIMEOUT": "300"},
                      classify=lambda o, r: "threads=" + o.split()[3]))
    sts.append(Stream("ps-intervals", interval_ops(ctx), oracle=False,
                      classify=lambda o, r: "1-interval" if " " not in r else "n-intervals"))
    sts.append(Stream("ps-generate", gen_ops(ctx), oracle=True, timeout=3000, env={"PCV_OP_TIMEOUT": "300"}, classify=lambda o, r: o.split()[1] + (":err" if r.startswith("ERR") else "")))

    def genn_model(ops_, impl):
        return ["%s %d" % (o, nth_hint(int(o.split()[2]), int(o.split()[3]))) for o in ops_]
    sts.append(Stream("ps-generate-n", genn_ops(ctx), oracle=True, model_ops=genn_model, timeout=3000, env={"PCV_OP_TIMEOUT": "300"},
                      classify=lambda o, r: o.split()[1] + (":err" if r.startswith("ERR") else "")))

    def nth_model(ops_, impl):
        out = []
        for o, a in zip(ops_, impl):
            f = a.split()
            out.append("psnth_m %s %s %s" % (o.split(" ", 1)[1], f[1], f[2]) if len(f) == 3 else "#")
        return out

    def nth_judge(ops_, impl, mops, model):
        dis = []
        for i, (o, a, b) in enumerate(zip(ops_, impl, model)):
            if a in ("HANG", "CRASH", "SKIPPED") or b == "ERR:model-bound":
                continue
            if a.split()[:1] != [b]:
                dis.append(dict(index=i, op=o, impl=a, model=b))
        return dis
    sts.append(Stream("ps-nth", nth_ops(ctx), oracle=True, model_ops=nth_model, judge=nth_judge, timeout=3000, env={"PCV_OP_TIMEOUT": "300"},
                      classify=lambda o, r: ("neg" if o.split()[1].startswith("-") else "pos") + (":err" if r.startswith("ERR") else "")))
    pc = ["pcgen %d" % m for m in (0, 1, 2, 3, 10, 100, 719, 720, 10 ** 4, 10 ** 6, ctx.rng.randint(10, 10 ** 6))]
    pcn = ["pcgenn %d" % n for n in (0, 1, 2, 10, 128, 129, 1024, 1025, 10 ** 4, ctx.rng.randint(1, 10 ** 5))]

    def pcn_model(ops_, impl):
        return ["%s %d" % (o, nth_hint(int(o.split()[1]), 0)) for o in ops_]
    sts.append(Stream("pc-generate", pc, oracle=True))
    sts.append(Stream("pc-generate-n", pcn, oracle=True, model_ops=pcn_model))
    if c18core is not None:
        sts += c18core.streams(ctx)
    try:
        from . import c18top
        sts += c18top.streams(ctx)
    except ImportError:
        pass
    return sts


def search(ctx, proof_broken, bad, dis):
    from ..runner import default_search
    # one representative per (stream, kind) first
    first, rest, seen = [], [], set()
    for d in dis:
        k = (d.get("stream"), d.get("oracle"))
        (rest if k in seen else first).append(d)
        seen.add(k)
    core_search = getattr(c18core, "search", None) if c18core is not None else None
    mine = [d for d in first + rest if not str(d.get("stream", "")).startswith("core")]
    theirs = [d for d in first + rest if str(d.get("stream", "")).startswith("core")]
    if core_search is not None and theirs:
        if not core_search(ctx, None, [], theirs):
            mine += theirs
    else:
        mine += theirs
    default_search(ctx, proof_broken, bad, mine)
    return True
