"""C11 — the 128-bit instantiations of B and P2 at and beyond 2^63 / 2^64 (the sieve-backed sum of pi(x / p)).

These two formulas are the only sieve-driven ones whose cost can be made independent of x: with y just below sqrt(x) the
range (y, sqrt x] holds a few hundred primes and every pi(x / p) lies in a window of a few 10^5 numbers above sqrt(x).
The 128-bit code is run for x on both sides of 2^63 and 2^64 (where `(uint64_t)(x / prime)` and `x / prime` part ways with
`(uint64_t) x / prime`: seeded change C11-b) up to 10^24 and compared with the value recomputed by the PROVED window sieve
from two numbers supplied by the 64-bit entry point: base = pi(x / pmax) and a = pi(y)."""
import math
from ..runner import Stream

RULE = ("x = k^2 + r around 2^63, 2^64, 2^65, 10^20, 10^22, 10^24 and log-uniform in [2^62, 10^24], y = sqrt(x) - d with d <= 3*10^5 "
        "(a few hundred primes), threads 1..16; below 2^63 the same op is also run through the 64-bit overloads elsewhere (C08); "
        "non-trivial = at least one prime in (y, sqrt x]")
TRUSTED = ["base = pi(x / pmax) and a = pi(y) are taken from the implementation's 64-bit entry point pi(int64_t) (arguments <= 10^12, "
           "the regime C01 compares with the sieve oracle); everything else (the primes of (y, sqrt x], every increment pi(x/p) - base, "
           "the closed form of P2) is recomputed by the proved window sieve windowListWith / windowDeltasWith"]
ASSUMPTIONS = ["sqrt(x) - y <= 2*10^6; x <= 10^24"]


def streams(ctx):
    rng = ctx.rng
    xs = []
    for c in (2 ** 63, 2 ** 64, 2 ** 65, 2 ** 66, 10 ** 20, 10 ** 22, 10 ** 24):
        for d in (-10 ** 4, -1, 0, 1, 10 ** 4, rng.randint(-10 ** 9, 10 ** 9)):
            xs.append(c + d)
    for _ in range(8 if ctx.quick else 200):
        xs.append(int(math.exp(rng.uniform(math.log(2 ** 62), math.log(10 ** 24)))))
    ops = []
    for x in xs:
        sq = math.isqrt(x)
        for d in (rng.randint(2000, 300000), rng.randint(50, 3000)):
            ops.append("wide_bp2 %d %d %d" % (x, sq - d, rng.choice((1, 2, 5, 16))))

    def mops(ops_, impl):
        out = []
        for o, r in zip(ops_, impl):
            p = o.split()
            f = dict(t.split("=", 1) for t in r.split() if "=" in t)
            if "base" in f and "a" in f and f["base"].isdigit() and f["a"].isdigit():
                out.append("wide_bp2_chk %s %s %s %s" % (p[1], p[2], f["base"], f["a"]))
            else:
                out.append("# " + o)
        return out

    def judge(ops_, impl, mo, model):
        dis = []
        for i, (o, r, m) in enumerate(zip(ops_, impl, model)):
            got = " ".join(t for t in r.split() if t.startswith("B=") or t.startswith("P2="))
            if mo[i].startswith("#") or got != m:
                dis.append(dict(index=i, op=o, impl=r, model=m))
        return dis

    return [Stream("wide_B_P2_beyond_2^63", ops, oracle=True, model_ops=mops, judge=judge, timeout=1200,
                   nontrivial=lambda o, r: o if not r.startswith("B=0 ") else None,
                   classify=lambda o, r: "x>=2^64" if int(o.split()[1]) >= 2 ** 64 else ("x>=2^63" if int(o.split()[1]) >= 2 ** 63 else "x<2^63"),
                   env={"PCV_OP_TIMEOUT": "120"})]
