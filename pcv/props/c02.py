"""C02 — every counting algorithm returns the same value for the same x."""
from ..runner import Stream
from .. import gen
from ..pi_common import next_prime as pc_next_prime

ALL = ["cache", "primesieve", "legendre", "meissel", "lehmer", "lmo1", "lmo2", "lmo3", "lmo4", "lmo5",
       "lmo_parallel", "dr64", "dr128raw", "gourdon64", "gourdon128raw", "pi"]
SLOW = ["primesieve", "legendre", "lmo1", "lmo2", "lmo3"]
RULE = ("op `algrange name lo hi` = every x in a range through one algorithm, compared with the proved sieve oracle; "
        "`algall x names` = all algorithms on one x, compared with the oracle (x <= 6e7) or with each other (beyond); "
        "distinct = distinct (algorithm, x) pairs with x > 30719")
TRUSTED = ["model side = sieve of Eratosthenes (PcModel/Oracle.lean, correctness theorem PcProofs/Oracle.lean)",
           "beyond 6e7 the comparison is mutual agreement of all algorithms (plus C05 increments)"]
ASSUMPTIONS = ["x within each algorithm's type; negatives give 0"]


def count_pairs(op, res):
    return None


def streams(ctx):
    rng = ctx.rng
    ops = []
    top = 6000 if ctx.quick else 300000
    step = 2000
    for name in ALL:
        hi_name = min(top, 30719) if name == "cache" else top
        lo = -3
        while lo <= hi_name:
            hi = min(lo + step - 1, hi_name)
            ops.append("algrange %s %d %d %d" % (name, lo, hi, rng.choice((1, 2, 4))))
            lo = hi + 1
    # dispatcher thresholds for every algorithm
    for c in (30719, 10 ** 5, 10 ** 6):
        for name in ALL:
            if name != "cache":
                ops.append("algrange %s %d %d 2" % (name, c - (60 if ctx.quick else 2000), c + (60 if ctx.quick else 2000)))
    st1 = Stream("ranges_vs_oracle", ops, oracle=True, timeout=1800,
                 classify=lambda op, r: op.split()[1])
    # structured / random x
    ops2 = []
    fast = ["lmo_parallel", "dr64", "dr128raw", "gourdon64", "gourdon128raw", "pi"]
    n_mid = 60 if ctx.quick else 1500
    for x in gen.structured_x(rng, 3 * 10 ** 4, 5 * 10 ** 7, n_mid):
        ops2.append("algall %d %d %s" % (x, rng.choice((1, 3, 16)), " ".join(n for n in ALL if n != "cache")))
    n_big = 25 if ctx.quick else 400
    for x in gen.structured_x(rng, 10 ** 8, 10 ** 10 if ctx.quick else 10 ** 12, n_big):
        # the O(x^(2/3)) / O(x) algorithms (primesieve, legendre, lmo1..3) need minutes per call beyond 1e10: one op would
        # run into the per-op alarm (HANG) of the harness — they are compared up to 1e10, the others up to 1e12
        names = [n for n in ALL if n != "cache" and (x <= 10 ** 10 or n not in SLOW)]
        ops2.append("algall %d %d %s" % (x, rng.choice((1, 3, 16)), " ".join(names)))
    n_huge = 8 if ctx.quick else 120
    for x in gen.structured_x(rng, 10 ** 13, 10 ** 15 if ctx.quick else 10 ** 16, n_huge):
        ops2.append("algall %d 16 %s" % (x, " ".join(fast)))
    # root transitions: x = k^n - 1, k^n are exactly where isqrt / iroot<3> / iroot<4> / iroot<6> (hence y, a, the
    # loop bounds of every algorithm) change; ALL cubes, fourth and sixth powers up to 1e8, sampled beyond
    mid = [n for n in ALL if n not in SLOW and n != "cache"]
    for n, kmax in ((3, 464), (4, 100), (6, 21)):
        for k in range(4, kmax + 1):
            if not ctx.quick or n != 3 or k % 2 == 1 or k < 80:
                for d in (-1, 0):
                    ops2.append("algagree %d %d %s" % (k ** n + d, rng.choice((1, 4)), " ".join(mid)))
    for n, kmax in ((2, 10 ** 6), (3, 10 ** 4), (4, 10 ** 3), (6, 100)):
        for _ in range(10 if ctx.quick else 150):
            k = rng.randint(max(8, int(kmax ** 0.5)), kmax)
            if rng.random() < 0.5:
                k = pc_next_prime(k)
            for d in (-1, 0):
                ops2.append("algagree %d %d %s" % (k ** n + d, rng.choice((1, 16)), " ".join(mid if k ** n < 10 ** 10 else fast)))
    for x in (-10 ** 30, -2 ** 63, -1, 0, 1, 2, 3):
        ops2.append("algall %d 2 pi dr128 gourdon128" % x)

    def judge(ops, impl, mops, model):
        dis = []
        for i, (o, a, b) in enumerate(zip(ops, impl, model)):
            va, vb = a.split(), b.split()
            if a in ("HANG", "CRASH", "SKIPPED"):
                continue
            if "?" in vb:
                ok = len(set(va)) == 1 and va[0].lstrip("-").isdigit()
                exp = "all equal"
            else:
                ok = va == vb
                exp = b
            if not ok:
                names = o.split()[3:]
                bad = [n for n, v, e in zip(names, va, vb if "?" not in vb else [max(set(va), key=va.count)] * len(va)) if v != e]
                dis.append(dict(index=i, op=o, impl=a, model=exp, algorithms=bad))
        return dis

    def nontrivial(op, res):
        p = op.split()
        return op if int(p[1]) > 30719 else None
    st2 = Stream("all_algorithms", ops2, oracle=True, judge=judge, nontrivial=nontrivial, timeout=6000,
                 env={"PCV_OP_TIMEOUT": "600"})
    return [st1, st2]
