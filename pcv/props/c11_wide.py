"""C11 — magnitudes that ONLY the 128-bit instantiation can reach (x >= 2^63 ... 4e31): the terms that stay cheap for
explicit small parameters (S1, Phi0 — their top-level phi_tiny(x, c) call is the only place where the uint128 PhiTiny path
sees an argument > 2^64) against the defining sums evaluated by pcdrv over unbounded integers."""
from ..runner import Stream
from .. import gen

RULE = ("S1 / Phi0 through the int128_t overloads for x in [2^63, 4e31] (log-uniform, plus the places where "
        "floor(x / P_c) * phi(P_c) crosses multiples of 2^64 for the PhiTiny products P_c) with small explicit y, z; "
        "distinct = distinct op lines")
TRUSTED = ["model side = defining sums PcModel/Formulas.lean (NT.S1, NT.Phi0) over unbounded naturals"]
ASSUMPTIONS = ["only terms whose cost does not grow with x are executable at these magnitudes"]

PP = [(2, 1), (6, 2), (30, 8), (210, 48), (2310, 480), (30030, 5760), (510510, 92160)]


def streams(ctx):
    rng = ctx.rng
    xs = set()
    n = 60 if ctx.quick else 1500
    for _ in range(n):
        xs.add(min(2 ** 63 + rng.getrandbits(rng.randint(40, 105)), 4 * 10 ** 31))
    # x where floor(x / pp) * totient crosses j * 2^64 (j small): just below / at / above
    for pp, tot in PP[3:]:
        for j in (1, 2, 3, 7):
            q = (j * 2 ** 64 + tot - 1) // tot          # smallest q with q * tot >= j * 2^64
            for d in (-1, 0, 1):
                xs.add((q + d) * pp + rng.randint(0, pp - 1))
    xs = sorted(x for x in xs if 2 ** 63 <= x <= 4 * 10 ** 31)
    ops = []
    for x in xs:
        y = rng.choice([rng.randint(20, 400), rng.randint(400, 3000)])
        c = gen.get_c(y)
        t = rng.choice((1, 3, 16))
        ops.append("S1 128 %d %d %d %d" % (x, y, c, t))
        z = rng.randint(y, 4 * y)
        k = rng.choice([gen.get_c(y), min(gen.get_c(y), 7), 8 if y >= 30 else gen.get_c(y)])
        ops.append("Phi0 128 %d %d %d %d %d" % (x, y, z, min(k, gen.get_c(y)), t))
    return [Stream("wide_only_magnitudes", ops, oracle=True, timeout=1500, classify=lambda o, r: o.split()[0])]
