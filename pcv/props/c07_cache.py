"""C07 (WP phicache) — the REAL `class PhiCache` of src/phi.cpp (harness/ops_phicache.cpp compiles phi.cpp into the harness and
lifts `private`) against the L2 model lean/PcModel/PhiCache.lean (`Pc.PhiCacheL2`), bit for bit: constructor geometry, the
`sieve_[i]` arrays after `init_cache` call sequences, `phi_cache` lookups, `phi<SIGN>` call sequences on one cache object and the
single-thread main loop of phi_OpenMP.  Mirror streams (`oracle=False`) compare with the executable model about which
PcProps/C07Cache.lean proves the property; `cache_lookup_spec` is an oracle stream: phi_cache(y, b) against phi(y, b) by the
definition (own sieve of the driver).  The float `E = (uint64_t) std::pow(x, 1 / 2.3)` is printed by the implementation and handed
to the model as an explicit argument (`maxXEst`)."""
import bisect
import math

from ..runner import Stream

RULE = ("cache_geom: constructor at a in {38,39,40,129,130,131,200,1e6,...} x (E transitions of max_x_size_ 7/8 and k/k+1, the "
        "16 MiB clamp transition per max_a_, log-uniform x to 2^63-1); cache_dump: sieve_ arrays word by word for max_x_size_ 8..60 "
        "after init_cache sequences (single, incremental, random increasing), larger ones (to ~1700 words quick / ~5000 thorough) "
        "per-level FNV-1a checksums incl. x >= 8e12 where prefix counts exceed 65535; cache_lookup(+_spec): phi_cache(y, b) for "
        "EVERY y <= max_x_ and b = 9..k (k <= 60) on small caches, windows in list form; cache_rec: phi<+-1>(y, b) sequences on one "
        "object (targets: larger_c start, init_cache growth, pi table exits); cache_main: main loop of phi_OpenMP on one object vs "
        "phiThread/phiCpp and vs primecount::phi; vec_cache / vec_run: the same geometry / dump ops on the template copy of the class "
        "in src/phi_vector.cpp (max_x = isqrt x) and phi_vector(x, a) on it (copy in the harness TU and the library's) vs phiVectorS; "
        "distinct = distinct op lines")
TRUSTED = ["harness/ops_phicache_vec.cpp does the same with src/phi_vector.cpp (template copy of the class)",
           "harness/ops_phicache.cpp compiles src/phi.cpp into the harness (`#define private public`, primecount::phi renamed) to "
           "reach the file-local class PhiCache; a changed phi.cpp changes these ops and the library alike",
           "mirror side = Pc.PhiCacheL2 (State.new / initCache / phiCache / phiRecS / phiThread / phiCpp) run by "
           "lean/PcModel/Drv/PhiCache.lean with the driver's own prime and pi tables; the float E travels from the implementation",
           "cache_lookup_spec: phi(y, b) by the definition over the driver's own sieve (phiDefTable) — independent of primecount "
           "and of the cache model, not itself proved"]
ASSUMPTIONS = ["init_cache(k) ops only with 8 < k <= max_a_ and k > max_a_cached_ (its ASSERTs); phi<SIGN>(y, b) ops only with "
               "0 <= y, 0 <= b < a (is_pix reads primes_[b + 1]); main-loop ops only with 8 < a <= pi(sqrt x)"]

I64MAX = 2 ** 63 - 1
_PR = None


def _primes():
    global _PR
    if _PR is None:
        n = 20000
        s = bytearray([1]) * (n + 1)
        s[0] = s[1] = 0
        for i in range(2, int(n ** 0.5) + 1):
            if s[i]:
                s[i * i::i] = bytearray(len(range(i * i, n + 1, i)))
        _PR = [0] + [i for i in range(n + 1) if s[i]]      # 1-indexed like primes_
    return _PR


def pow_est(x):
    """generator-side estimate of (uint64_t) std::pow(x, 1 / 2.3) — only used to PLACE inputs, never compared"""
    return int(float(x) ** (1 / 2.3))


def x_for_E(e):
    """smallest x whose estimate reaches e"""
    lo, hi = 1, I64MAX
    while lo < hi:
        mid = (lo + hi) // 2
        if pow_est(mid) >= e:
            hi = mid
        else:
            lo = mid + 1
    return lo


def geometry(x, a):
    """(max_x_, max_x_size_, max_a_, clamped) as the constructor computes them, from the generator-side estimate"""
    max_a = min(a - min(a, 30), 100)
    if max_a <= 8:
        return (0, 0, 0, False)
    limit = ((16 << 20) // (max_a - 8)) * 20
    e = pow_est(x)
    mx = min(e, limit)
    size = (mx + 239) // 240
    if size < 8:
        return (0, size, 0, False)
    return (size * 240 - 1, size, max_a, e > limit)


def geom_class(x, a):
    mx, size, ma, cl = geometry(x, a)
    if ma == 0:
        return "nocache:max_a<=8" if size == 0 and min(a - min(a, 30), 100) <= 8 else "nocache:size<8"
    return "clamped" if cl else "cached"


def mops_for(suffix="_m"):
    def f(ops, impl):
        out = []
        for o, r in zip(ops, impl):
            w = o.split()
            e = r.split("|")[0] if "|" in r and r.split("|")[0].isdigit() else "0"
            out.append("%s%s %s %s" % (w[0] if suffix == "_m" else "phicache_lookup", suffix, e, " ".join(w[1:])))
        return out
    return f


def judge_same(ops, impl, mops, model):
    dis = []
    for i, (o, a, b) in enumerate(zip(ops, impl, model)):
        if a in ("HANG", "CRASH", "SKIPPED") or a == b:
            continue
        k = 0
        while k < min(len(a), len(b)) and a[k] == b[k]:
            k += 1
        lo = max(0, k - 60)
        dis.append(dict(index=i, op=o, impl=("...@%d:" % lo if lo else "") + a[lo:k + 120],
                        model=("...@%d:" % lo if lo else "") + b[lo:k + 120], model_op=mops[i][:300]))
    return dis


def regime(x, a):
    if x >= 8 * 10 ** 12 and a >= 39:
        return "x>=8e12,a>=39"
    if x >= 10 ** 8 and 39 <= a < 130:
        return "x>=1e8,39<=a<130"
    if x >= 10 ** 8 and a >= 130:
        return "x>=1e8,a>=130"
    if a < 39:
        return "a<39(no cache)"
    return "x<1e8"


def streams(ctx):
    rng = ctx.rng
    q = ctx.quick
    P = _primes()
    out = []

    def logu(lo, hi):
        return int(math.exp(rng.uniform(math.log(lo), math.log(hi))))

    # ---- (a) constructor geometry
    A_FIX = [1, 8, 9, 30, 37, 38, 39, 40, 41, 60, 90, 128, 129, 130, 131, 132, 200, 10 ** 6]
    xs = set()
    for e in (1679, 1680, 1681, 1682, 1920, 1921, 2160, 2161, 240 * 60, 240 * 60 + 1, 3647219, 3647220, 3647221, 3647279, 3647280):
        x0 = x_for_E(e)
        xs.update([x0 - 1, x0, x0 + 1])
    for ma in (9, 10, 11, 50, 99, 100):              # clamp transition E = limit(max_a) (when it is below 2^63)
        limit = ((16 << 20) // (ma - 8)) * 20
        if float(limit) ** 2.3 < 9e18:
            x0 = x_for_E(limit)
            xs.update([x0 - 1, x0, x_for_E(limit + 1) - 1, x_for_E(limit + 1)])
    xs.update([1, 2, 10 ** 8, 10 ** 10, 8 * 10 ** 12, 13 * 10 ** 14, 2 * 10 ** 15, 10 ** 16, 10 ** 18, I64MAX - 1, I64MAX])
    for _ in range(30 if q else 400):
        xs.add(logu(1, I64MAX))
        xs.add(logu(1.3e15, I64MAX))
    ops = []
    for x in sorted(v for v in xs if 1 <= v <= I64MAX):
        as_ = set(A_FIX if (len(ops) % 3 == 0 or x >= 10 ** 15) else [38, 39, 130, 10 ** 6 if rng.random() < 0.1 else 131])
        as_.update([rng.randint(31, 140), rng.randint(1, 3000)])
        for a in sorted(as_):
            ops.append("phicache_geom %d %d" % (x, a))
    out.append(Stream("cache_geom", ops, oracle=False, model_ops=mops_for(), judge=judge_same, timeout=600,
                      classify=lambda op, r: geom_class(int(op.split()[1]), int(op.split()[2]))))

    # ---- (b) dumps of the sieve arrays
    def x_with_words(w):
        """x whose max_x_size_ is w (unclamped)"""
        e = rng.randint((w - 1) * 240 + 1, w * 240)
        return x_for_E(e) + rng.randint(0, 3)

    def seqs(ma, kind):
        if kind == "single":
            return [ma]
        if kind == "incr":
            return list(range(9, ma + 1))
        if kind == "partial":
            return [rng.randint(9, ma)]
        ks = sorted(set(rng.randint(9, ma) for _ in range(rng.randint(2, 6))))
        return ks
    ops, kinds = [], {}
    words = [8, 9, 10, 13, 60] + [rng.randint(8, 60) for _ in range(12 if q else 80)]
    for w in words:
        x = x_with_words(w)
        for a in {39, 40, rng.randint(41, 128), 129, 130, rng.randint(131, 400)} if w in (8, 60) else {rng.choice([39, 40, 129, 130]), rng.randint(41, 200)}:
            ma = geometry(x, a)[2]
            if ma == 0:
                continue
            for kind in (("single", "incr", "random", "partial") if not q or w in (8, 60) else ("single", rng.choice(["incr", "random", "partial"]))):
                op = "phicache_dump %d %d full %s" % (x, a, " ".join(str(k) for k in seqs(ma, kind)))
                kinds[op] = "full/" + kind
                ops.append(op)
    # no init_cache call at all, and a violated ASSERT (k <= max_a_cached_, k > max_a_, k <= 8): both sides answer ERR:domain
    x = x_with_words(12)
    for tail in ("", "9 9", "12 10", "8", "%d" % (geometry(x, 60)[2] + 1)):
        op = ("phicache_dump %d 60 full %s" % (x, tail)).strip()
        kinds[op] = "full/none" if tail == "" else "assert-violated"
        ops.append(op)
    # checksummed: bigger caches
    big = [logu(10 ** 10, 10 ** 12) for _ in range(5 if q else 40)]
    big += [x_for_E(240 * rng.randint(400, 1700)) for _ in range(1 if q else 10)]
    if not q:
        big += [logu(10 ** 13, 10 ** 14) for _ in range(6)] + [x_for_E(10 ** 6)]
    for x in big:
        for a in {rng.choice([39, 40, 45]), rng.choice([129, 130, 200]), rng.randint(41, 128)}:
            ma = geometry(x, a)[2]
            kind = rng.choice(["single", "incr", "random"]) if ma <= 40 else rng.choice(["single", "random"])
            op = "phicache_dump %d %d sum %s" % (x, a, " ".join(str(k) for k in seqs(ma, kind)))
            kinds[op] = "sum/" + kind
            ops.append(op)
    # regime of seeded change C07-a: prefix counts beyond 65535 (max_x_ >= ~4.0e5, x >= 8e12); few levels keep it cheap
    for i in range(3 if q else 12):
        x = logu(8 * 10 ** 12, 10 ** 14) if i else 8 * 10 ** 12 + rng.randint(0, 10 ** 9)
        a = rng.choice([39, 40, 50, 130])
        ma = geometry(x, a)[2]
        ks = sorted({9, rng.randint(9, min(ma, 12))})
        op = "phicache_dump %d %d sum %s" % (x, a, " ".join(str(k) for k in ks))
        kinds[op] = "sum/count>65535"
        ops.append(op)
    out.append(Stream("cache_dump", ops, oracle=False, model_ops=mops_for(), judge=judge_same, timeout=1800,
                      classify=lambda op, r, kinds=kinds: kinds.get(op, "?")))

    # ---- (c) phi_cache lookups: every y <= max_x_, every level 9..k, k <= 60
    ops, kinds = [], {}
    for w in [8, 9, 35] + [rng.randint(8, 40) for _ in range(4 if q else 40)]:
        x = x_with_words(w)
        a = rng.choice([90, 91, 100, 130]) if w != 9 else rng.randint(39, 89)
        mx, size, ma, _ = geometry(x, a)
        k = min(ma, 60)
        op = "phicache_lookup %d %d %d 0 %d sum" % (x, a, k, mx)
        kinds[op] = "exhaustive/sum"
        ops.append(op)
        for _ in range(3):
            lo = rng.choice([0, rng.randint(0, mx), 240 * rng.randint(0, size - 1) - 3 if size > 1 else 0, mx - 40])
            lo = max(0, min(lo, mx))
            hi = min(mx, lo + rng.randint(0, 60))
            k2 = rng.randint(9, k)
            op = "phicache_lookup %d %d %d %d %d list" % (x, a, k2, lo, hi)
            kinds[op] = "window/list"
            ops.append(op)
    # larger caches: quick = one of ~250 words; thorough = max_x_ ~ 1e6 (x ~ 6e13), all y in chunks
    if q:
        x = x_for_E(60000 + rng.randint(0, 500))
        mx = geometry(x, 90)[0]
        op = "phicache_lookup %d 90 60 0 %d sum" % (x, mx)
        kinds[op] = "exhaustive/sum"
        ops.append(op)
    else:
        x = x_for_E(10 ** 6)
        mx = geometry(x, 90)[0]
        step = 100000
        for lo in range(0, mx + 1, step):
            op = "phicache_lookup %d 90 60 %d %d sum" % (x, lo, min(mx, lo + step - 1))
            kinds[op] = "exhaustive1e6/sum"
            ops.append(op)
    # x >= 8e12: lookups in the last words of level 9.. where count >= 65536
    for _ in range(2 if q else 8):
        x = logu(8 * 10 ** 12, 3 * 10 ** 13)
        a = rng.choice([39, 40, 60, 130])
        mx, size, ma, _ = geometry(x, a)
        k = rng.randint(9, min(ma, 11))
        op = "phicache_lookup %d %d %d %d %d list" % (x, a, k, mx - rng.randint(5, 60), mx)
        kinds[op] = "window/count>65535"
        ops.append(op)
    out.append(Stream("cache_lookup", ops, oracle=False, model_ops=mops_for(), judge=judge_same, timeout=1800,
                      classify=lambda op, r, kinds=kinds: kinds.get(op, "?")))
    out.append(Stream("cache_lookup_spec", list(ops), oracle=True, model_ops=mops_for("_spec"), judge=judge_same, timeout=1800,
                      classify=lambda op, r, kinds=kinds: kinds.get(op, "?")))
    ctx.res.extra["cache_lookup_pairs"] = sum((int(o.split()[5]) - int(o.split()[4]) + 1) * (int(o.split()[3]) - 8) for o in ops)

    # ---- (d) phi<SIGN>(y, b) call sequences on ONE cache object
    def rec_calls(x, a, n):
        mx, size, ma, _ = geometry(x, a)
        calls = []
        for _ in range(n):
            t = rng.random()
            b = rng.randint(0, a - 1)
            if t < 0.35 and ma > 0:
                # target of seeded change C07-b: y <= max_x_, b > max_a_, y >= p_{b+1}^2  =>  loop starts at larger_c
                bmax = bisect.bisect_right(P, math.isqrt(mx)) - 2      # largest b with p_{b+1}^2 <= max_x_
                if bmax > ma and a - 1 > ma:
                    b = rng.randint(ma + 1, min(bmax, a - 1))
                    y = rng.randint(P[b + 1] ** 2, mx)
                else:
                    y = rng.randint(0, mx)
            elif t < 0.5 and ma > 0:
                y = rng.choice([mx - 1, mx, mx + 1, rng.randint(0, mx), 240 * rng.randint(0, size) + rng.choice([-1, 0, 1])])
                y = max(0, y)
            elif t < 0.6:
                y = max(0, P[min(b + 1, len(P) - 1)] ** 2 + rng.choice([-1, 0, 1]))     # is_pix boundary
            elif t < 0.7:
                y = max(0, P[b] + rng.choice([-1, 0, 1]))                              # x <= primes_[a] boundary
            elif t < 0.8:
                y = x // P[min(b + 1, a)]                                              # what the main loop passes
            else:
                y = logu(1, min(x, 10 ** 11))
            calls.append("%d:%d:%s" % (y, b, rng.choice("+-")))
        return calls
    ops = []
    cases = []
    for _ in range(60 if q else 600):
        cases.append((logu(10 ** 8, 10 ** 10), rng.randint(39, 129)))
    for _ in range(10 if q else 100):
        cases.append((logu(3 * 10 ** 7, 10 ** 10), rng.choice([38, 39, 40, 129, 130, 131, rng.randint(130, 400)])))
    for _ in range(2 if q else 20):
        cases.append((logu(8 * 10 ** 12, 2 * 10 ** 13), rng.choice([39, 40, 45, 60])))
    for (x, a) in cases:
        ops.append("phicache_rec %d %d %s" % (x, a, " ".join(rec_calls(x, a, rng.randint(1, 8)))))
    out.append(Stream("cache_rec", ops, oracle=False, model_ops=mops_for(), judge=judge_same, timeout=1800,
                      classify=lambda op, r: regime(int(op.split()[1]), int(op.split()[2]))))
    ctx.res.extra["cache_rec_calls"] = sum(len(o.split()) - 3 for o in ops)

    # ---- (e) the main loop of phi_OpenMP on one cache object
    ops = []
    cases = []
    for _ in range(50 if q else 500):
        cases.append((logu(10 ** 8, 10 ** 10), rng.randint(39, 129)))
    for _ in range(8 if q else 80):
        cases.append((logu(10 ** 6, 10 ** 11), rng.choice([9, 38, 39, 40, 129, 130, 131, rng.randint(130, 1000)])))
    for _ in range(2 if q else 12):
        cases.append((logu(8 * 10 ** 12, 2 * 10 ** 13), rng.choice([39, 40, 45, rng.randint(41, 70)])))
    if not q:
        cases += [(logu(8 * 10 ** 12, 10 ** 14), rng.choice([100, 129, 130, 200])) for _ in range(4)]
    for (x, a) in cases:
        a = min(a, bisect.bisect_right(P, math.isqrt(x)) - 1)       # a <= pi(sqrt x)
        if a > 8:
            ops.append("phicache_main %d %d" % (x, a))
    out.append(Stream("cache_main", ops, oracle=False, model_ops=mops_for(), judge=judge_same, timeout=1800,
                      classify=lambda op, r: regime(int(op.split()[1]), int(op.split()[2]))))

    # ---- (f) the SECOND copy of the class (template in src/phi_vector.cpp, max_x = isqrt(x)) and phi_vector running on it
    #          (harness/ops_phicache_vec.cpp); the model ops are the same, the implementation's isqrt(x) travels as `maxXEst`
    def vec_mops(ops_, impl):
        res = []
        for o, r in zip(ops_, impl):
            w = o.split()
            e = r.split("|")[0] if "|" in r and r.split("|")[0].isdigit() else "0"
            if w[0] == "phivec_run":
                res.append("phivec_run_m %s %s" % (w[1], w[2]))
            elif w[4] == "geom":
                res.append("phicache_geom_m %s %s %s" % (e, w[1], w[2]))
            else:
                res.append("phicache_dump_m %s %s %s %s" % (e, w[1], w[2], " ".join(w[4:])))
        return res

    def geometry_e(e, a):
        max_a = min(a - min(a, 30), 100)
        if max_a <= 8:
            return (0, 0, 0)
        limit = ((16 << 20) // (max_a - 8)) * 20
        size = (min(e, limit) + 239) // 240
        return (0, size, 0) if size < 8 else (size * 240 - 1, size, max_a)

    def x_with_isqrt(e):
        return e * e + rng.randint(0, 2 * e)
    ops, kinds = [], {}
    es = [1679, 1680, 1681, 1920, 1921, 3647220, 3647221, 335544320, 335544321, 2 ** 31 - 1] + [logu(1, 2 ** 31 - 1) for _ in range(10 if q else 200)]
    for e in es:
        for a in [38, 39, 40, 129, 130, 131, 10 ** 6, rng.randint(1, 400)]:
            op = "phivec_cache %d %d %s geom" % (x_with_isqrt(e), a, rng.choice(["u32", "i64"]))
            kinds[op] = "geom"
            ops.append(op)
    for w in [8, 9, 60] + [rng.randint(8, 60) for _ in range(6 if q else 60)]:
        e = rng.randint((w - 1) * 240 + 1, w * 240)
        for a in {rng.choice([39, 40, 129, 130]), rng.randint(41, 250)}:
            ma = geometry_e(e, a)[2]
            if ma == 0:
                continue
            for kind in ("single", rng.choice(["incr", "random", "partial"])):
                op = "phivec_cache %d %d %s full %s" % (x_with_isqrt(e), a, rng.choice(["u32", "i64"]), " ".join(str(k) for k in seqs(ma, kind)))
                kinds[op] = "full/" + kind
                ops.append(op)
    for i in range(3 if q else 20):
        e = logu(60 * 240, 4 * 10 ** 5) if i else rng.randint(4 * 10 ** 5, 5 * 10 ** 5)    # the last one: prefix counts > 65535
        a = rng.choice([39, 45, 130])
        ma = geometry_e(e, a)[2]
        ks = sorted({9, rng.randint(9, min(ma, 12))}) if not i else seqs(min(ma, 20), "random")
        op = "phivec_cache %d %d %s sum %s" % (x_with_isqrt(e), a, rng.choice(["u32", "i64"]), " ".join(str(k) for k in ks))
        kinds[op] = "sum/count>65535" if not i else "sum"
        ops.append(op)
    out.append(Stream("vec_cache", ops, oracle=False, model_ops=vec_mops, judge=judge_same, timeout=1800,
                      classify=lambda op, r, kinds=kinds: kinds.get(op, "?")))
    ops, kinds = [], {}
    for x in list(range(0, 40 if q else 400)) + [P[k] ** 2 + d for k in (5, 9, 10, 40, 100) for d in (-1, 0, 1)]:
        for a in sorted({1, 2, 8, 9, 10, rng.randint(1, 30)}):
            op = "phivec_run %d %d %s" % (x, a, rng.choice(["u32", "i64"]))
            kinds[op] = "small"
            ops.append(op)
    for _ in range(40 if q else 600):
        x = logu(3 * 10 ** 6, 10 ** 10 if q else 10 ** 12)
        a = rng.choice([39, 40, 41, rng.randint(42, 128), 129, 130, 131, rng.randint(132, 600)])
        op = "phivec_run %d %d %s" % (x, a, rng.choice(["u32", "i64"]))
        kinds[op] = "cache active" if geometry_e(math.isqrt(x), min(a, bisect.bisect_right(P, x) - 1 if x < P[-1] else a))[2] else "no cache"
        ops.append(op)
    out.append(Stream("vec_run", ops, oracle=False, model_ops=vec_mops, judge=judge_same, timeout=1800,
                      classify=lambda op, r, kinds=kinds: kinds.get(op, "?")))
    return out
