"""C15 (instruction-path half) — every bit counting path the CPU detection can select (AVX512 VPOPCNTQ,
hardware POPCNT, portable SWAR) produces the same value.

Proof side: lean/PcProps/C15.lean (`count_paths_equal`, `swar_popcount_eq`, `dispatch_irrelevant`).
Tie: the same count-heavy histories on the real Sieve object are run in three processes whose CPU detection is
forced (hook H2) to AVX512 / POPCNT / portable; each is compared with the Lean mirror AND the three outputs are
required to be identical line by line.  Thorough tier adds the build variants `nomultiarch` and `native`.
"""
from ..runner import Stream
from . import c17sieve

RULE = ("count-heavy histories (count(start,stop) with stop_idx - start_idx = 0..27 words, i.e. every residue 0..9 mod 8 "
        "and more; count(stop) sweeps through the counter array) x {AVX512, POPCNT, portable}; popcnt64 on 64-bit "
        "patterns; distinct = distinct history lines")
TRUSTED = c17sieve.TRUSTED + ["hook H2 (PRIMECOUNT_VERIF_NO_AVX512 / PRIMECOUNT_VERIF_NO_POPCNT) forces the detection; "
                              "the harness verifies (sieve_cfg / ERR:config) that the forced path is really the one in use"]
ASSUMPTIONS = c17sieve.ASSUMPTIONS + ["ARM SVE path not buildable here (not claimed)"]


def generated_obligations():
    return 1   # PcGen.swarConsts_ok (constants of the SWAR popcount extracted from include/popcnt.hpp)


def history_lines(ctx):
    rng = ctx.rng
    lines = []
    n = 300 if ctx.quick else 4000
    for _ in range(n):
        nwords = rng.choice([1, 2, 3, 8, 9, 10, 11, 17, 18, 19, 20, 28, 40, 64, 65, 66, 72, 100, 129, 150, 200])
        lines.append(c17sieve.count_heavy(rng, "@", nwords))
    # disciplined histories only: with decreasing stops or a bare cross_off the ASSERTed preconditions of
    # count(stop) are violated and the answer legitimately depends on the counter granularity (64 vs 8 bytes
    # per count instruction), so such histories are compared with the mirror only (C17 sieve-mirror streams)
    lines += c17sieve.random_disciplined(ctx, "@", 200 if ctx.quick else 3000, dumps=True)
    lines += c17sieve.small_scope(ctx, "@", dumps=True)[:: 2 if ctx.quick else 1]
    return lines


def strip_cfg_dependent(line):
    """counter dumps depend on the counter granularity (64 bytes per AVX512 instruction vs 8): drop them"""
    return " ".join(t for t in line.split(" ") if t != "dc")


def streams(ctx):
    c17sieve.wheel_obligations(ctx)     # extractor notes + the generated obligations incl. swarConsts_ok
    base = [strip_cfg_dependent(l) for l in history_lines(ctx)]
    shared = {}
    sts = []

    def make_judge(tag, last):
        def judge(ops, impl, mops, model):
            dis = []
            for i, (o, a, b) in enumerate(zip(ops, impl, model)):
                if a != b and a not in ("HANG", "CRASH", "SKIPPED"):
                    dis.append(dict(index=i, op=o, impl=a, model=b))
            shared[tag] = impl
            if last:
                tags = sorted(shared)
                ref = shared[tags[0]]
                for t in tags[1:]:
                    for i, (x, y) in enumerate(zip(ref, shared[t])):
                        if x != y:
                            dis.append(dict(index=i, op=ops[i], impl="%s: %s" % (t, y[:300]),
                                            model="%s: %s" % (tags[0], x[:300]), cross=True))
            return dis
        return judge

    plan = [("A", "rel", c17sieve.ENVS["A"]), ("P", "rel", c17sieve.ENVS["P"]), ("B", "rel", c17sieve.ENVS["B"])]
    if not ctx.quick:
        plan += [("P", "nomultiarch", {}), ("A", "native", {})]
    for k, (cfg, variant, env) in enumerate(plan):
        tag = "%s-%s" % (variant, cfg)
        ops = ["sieve_cfg"] + [l.replace("sieve @ ", "sieve %s " % cfg, 1) for l in base]
        # the first line documents which path really ran; the model side echoes the expectation
        expect = {"A": "avx512", "P": "noavx512", "B": "noavx512"}[cfg]

        def model_ops(o, impl, expect=expect):
            return ["# " + expect] + o[1:]

        def judge(o, impl, mops, model, tag=tag, last=(k == len(plan) - 1), expect=expect, cfg=cfg, variant=variant):
            dis = []
            got = impl[0] if impl else ""
            okcfg = got.startswith(expect + " ")
            if variant == "rel":
                okcfg = okcfg and got.endswith({"A": "popcnt=1", "P": "popcnt=1", "B": "popcnt=0"}[cfg])
            if not okcfg:
                dis.append(dict(index=0, op="sieve_cfg", impl=got, model="expected " + expect + " for cfg " + cfg))
            dis += make_judge(tag, last)(o[1:], impl[1:], mops[1:], model[1:])
            return dis
        sts.append(Stream("count-paths-" + tag, ops, oracle=True, env=env, variant=variant, model_ops=model_ops,
                          judge=judge, timeout=3000, classify=c17sieve.classify))
    # popcnt64 itself on the three paths
    for cfg in ("A", "B"):
        sts.append(Stream("popcnt64-" + cfg, [o for o in c17sieve.misc_ops(ctx) if o.startswith("sieve_popcnt")],
                          oracle=True, env=c17sieve.ENVS[cfg], timeout=600, classify=lambda o, r: o.split()[0]))
    return sts


def search(ctx, proof_broken, bad, disagreements):
    return c17sieve.search(ctx, proof_broken, bad, disagreements)
