"""C01 (WP top) — the size dispatcher of api.cpp (`pi(int64_t)`, `pi(int128_t)`, `pi_noprint`) against the L2 dispatcher
`Pc.Top.piApi64` / `piApi128` (lean/PcModel/TopAlgs.lean): cache table dumped from the binary, pi_legendre / pi_meissel / pi_gourdon
by their L2 models with every term computed by its real control flow.  Mirror stream (`oracle=False`); PcProps/C01Top.lean proves
`piApi_eq_pi`; the oracle comparison of the same entry points stays in c01.py."""
from ..runner import Stream
from .. import gen

RULE = ("top_api / top_noprint: every x in [-3, 2000], +-3 around every dispatcher threshold (30719, 1e5, 1e8), the root "
        "transitions k^n-1, k^n (n = 2, 3) and structured x to 3e8 (thorough 2e9), both widths; Gourdon's (y, z) travel from the "
        "implementation to the model; distinct = distinct op lines")
TRUSTED = ["model side = L2 dispatcher over the L2 route models (mirror)"]
ASSUMPTIONS = ["default tuning factors"]


def streams(ctx):
    rng = ctx.rng
    q = ctx.quick
    xs = list(range(-3, 2001))
    for c in (30719, 10 ** 5, 10 ** 8):
        xs += list(range(c - 3, c + 4))
    cap = 3 * 10 ** 8 if q else 2 * 10 ** 9
    xs += gen.structured_x(rng, 2000, cap, 60 if q else 900)
    xs += gen.structured_x(rng, 30720, 10 ** 5, 40 if q else 400)          # the Legendre regime
    for n in (2, 3):
        for _ in range(12 if q else 150):
            k = rng.randint(2, gen.iroot(n, cap))
            xs += [k ** n - 1, k ** n]
    ops = []
    for x in xs:
        ops.append("top_api %s %d %d" % (rng.choice(("64", "128")), x, rng.choice((1, 2))))
        if x <= 2000 or rng.random() < 0.3:
            ops.append("top_noprint %d 1" % x)

    def mops(ops_, impl):
        out = []
        for o, r in zip(ops_, impl):
            p = o.split()
            f = r.split()
            y, z = (f[0], f[1]) if len(f) == 3 else ("0", "0")
            if p[0] == "top_api":
                out.append("top_api_chk %s %s %s %s %s" % (p[1], p[2], y, z, p[3]))
            else:
                out.append("top_api_chk 64 %s %s %s %s" % (p[1], y, z, p[2]))
        return out

    def judge(ops_, impl, mops_, model):
        dis = []
        for i, (o, a, b) in enumerate(zip(ops_, impl, model)):
            if a in ("HANG", "CRASH", "SKIPPED"):
                continue
            res = a.split()[-1] if a else a
            if res != b:
                dis.append(dict(index=i, op=o, impl=a[:200], model=b[:200], model_op=mops_[i][:200], expected=b[:60], observed=res[:60]))
        return dis

    def cls(op, r):
        x = int(op.split()[2] if op.startswith("top_api") else op.split()[1])
        return "cache" if x <= 30719 else "legendre" if x <= 10 ** 5 else "meissel" if x <= 10 ** 8 else "gourdon"
    return [Stream("top_api", ops, oracle=False, model_ops=mops, judge=judge, timeout=1800, classify=cls)]
