"""C02 (WP top, item 3) — pi_lmo5 and pi_lmo_parallel against the L2 models of their CONTROL FLOW
(lean/PcModel/TopLmo.lean: `s2Lmo5`, `piLmo5`, `lmoParThread`, `lmoParOpenMP`, `piLmoParallel`; theorems PcProps/C02TopLmo.lean).

* whole functions: the float product y = (int64_t)(x13 * alpha) travels from the implementation to the model (`*_chk`);
* the file-local S2 of pi_lmo5.cpp with explicit (x, y, c): real == engine(prefix sieve) == engine(bit-exact Sieve model) ==
  defining sum of ALL special leaves;
* S2_thread of pi_lmo_parallel.cpp per work item: EVERY aligned window for small x, rows / chains covering [0, z] for medium x,
  leaf positions exactly on 240 t / 240 t - 1 (same three-way comparison + windowed defining sum);
* whole runs of the region: the REAL LoadBalancerS2 driven by simulated workers, history replayed by `lmoParOpenMP`."""
import bisect

from ..runner import Stream
from .. import gen

RULE = ("toplmo5 / toplmopar: every x in [-3, 3000] under alpha in {default, 1, 2, 3.999} (threads 1, 3) + structured x and root "
        "transitions k^2, k^3, k^6 +-1 to 1e7 (1e9 thorough); toplmo5_S2: x <= 1e7, y in [x13, sqrt x], c in {get_c(y), 3..8}; "
        "toplmopar_chunk/row/chain: x in 200..3000 x y x c x EVERY 240-aligned window, medium x to 2e6 covering [0, z], "
        "boundary inputs with a leaf exactly on a window edge; toplmopar_run: real LoadBalancerS2 histories replayed; "
        "distinct = distinct op lines")
TRUSTED = ["model side = L2 control-flow models of PcModel/TopLmo.lean over the engine of PcModel/HardLoops.lean",
           "harness/ops_toplmo.cpp compiles src/lmo/pi_lmo5.cpp and pi_lmo_parallel.cpp into the harness to reach the "
           "file-local S2 / S2_thread",
           "whole-function model ops run P2 / S1 / LoadBalancerS2 on the one-thread run / schedule / history"]
ASSUMPTIONS = ["S2 ops only with c >= 3 or c >= pi(y) (class Sieve cannot process a level b <= 3; callers pass get_c(y))"]

_PRIMES = None


def _pi(n):
    global _PRIMES
    if _PRIMES is None or (_PRIMES and _PRIMES[-1] < n):
        _PRIMES = gen.primes_upto(max(2 * n, 1000))
    return bisect.bisect_right(_PRIMES, n)


def _transitions(rng, top, per):
    xs = set()
    for n in (2, 3, 6):
        kmax = gen.iroot(n, top)
        ks = set(range(2, min(kmax, 8) + 1))
        for _ in range(per):
            ks.add(rng.randint(2, max(kmax, 2)))
        for k in ks:
            for d in (-1, 0, 1):
                if 2 <= k ** n + d <= top:
                    xs.add(k ** n + d)
    return sorted(xs)


def _judge_same(ops_, impl, mops, model):
    dis = []
    for i, (o, a) in enumerate(zip(ops_, impl)):
        if a in ("HANG", "CRASH", "SKIPPED"):
            continue
        b = model[i] if i < len(model) else "?"
        if "ERR:model-bound" in b or b.startswith("#"):
            continue
        if a != b:
            dis.append(dict(index=i, op=o, impl=a[:400], model=b[:400], model_op=mops[i][:400]))
    return dis


def _judged(name, ops, oracle, timeout=1500, use_def=True):
    """impl vs `engine | cs | def` (`use_def=False`: off the curve the windowed defining sum is not what the code promises)"""

    def model_ops(ops_, impl):
        out = []
        for o in ops_:
            a = o.split(" ", 1)
            out.append(a[0] + "_all " + a[1])
        return out

    def judge(ops_, impl, mops, model):
        dis = []
        for i, o in enumerate(ops_):
            a = impl[i]
            if a in ("HANG", "CRASH", "SKIPPED"):
                continue
            m = model[i] if i < len(model) else "?"
            if m.startswith("ERR:model-bound") or m == "MODEL-CRASH":
                continue
            parts = m.split(" | ")
            if len(parts) != 3:
                if a != m:
                    dis.append(dict(index=i, op=o, impl=a[:300], model=m[:300]))
                continue
            eng, cs, dfn = parts
            if not use_def:
                dfn = a
            if a != dfn:
                dis.append(dict(index=i, op=o, impl=a[:300],
                                model="%s   [windowed defining sum; engine models: %s | %s]" % (dfn[:300], eng[:200], cs[:200])))
            elif a != eng or a != cs:
                dis.append(dict(index=i, op=o, impl=a[:300], model="%s | %s   [engine models; defining sum agrees with the code]"
                                % (eng[:200], cs[:200]), model_crash=True))
        return dis

    def classify(op, r):
        vals = r.split()
        nz = any(v not in ("0",) for v in vals)
        return op.split()[0] + ("/nonzero" if nz else "/zero")
    return Stream(name, ops, oracle=oracle, model_ops=model_ops, judge=judge, timeout=timeout, classify=classify)


def _cs(rng, y):
    piy = _pi(y)
    cs = {gen.get_c(y)}
    for c in (3, 4, 5, rng.randint(3, 8)):
        if c <= max(piy, 3):
            cs.add(c)
    return sorted(c for c in cs if c >= 3 or c >= piy)


def _whole_stream(ctx):
    rng, q = ctx.rng, ctx.quick
    ops = []
    top, step = 3000, 500
    for alpha in (-1, 1000, 2000, 3999):
        lo = -3
        while lo <= top:
            hi = min(lo + step - 1, top)
            ops.append("toplmo5 %d %d %d" % (alpha, lo, hi))
            for th in ((1, 3) if alpha in (-1, 2000) else (1,)):
                ops.append("toplmopar %d %d %d %d" % (alpha, th, lo, hi))
            lo = hi + 1
    cap = 10 ** 7 if q else 10 ** 9
    xs = gen.structured_x(rng, 3000, cap, 16 if q else 250) + _transitions(rng, cap, 2 if q else 25)
    for x in xs:
        x16 = max(gen.iroot(6, x), 1)
        for alpha in sorted({-1, 1000, x16 * 1000, rng.randint(1000, x16 * 1000 + 1500)}):
            if rng.random() < 0.5:
                ops.append("toplmo5 %d %d %d" % (alpha, x, x))
            else:
                ops.append("toplmopar %d %d %d %d" % (alpha, rng.choice((1, 2, 5)), x, x))

    def mops(ops_, impl):
        out = []
        for o, r in zip(ops_, impl):
            p = o.split()
            ys = [tok.split(":")[0] for tok in r.split()]
            if p[0] == "toplmo5":
                out.append("toplmo5_chk %s %s %s" % (p[2], p[3], " ".join(ys)))
            else:
                out.append("toplmopar_chk %s %s %s" % (p[3], p[4], " ".join(ys)))
        return out
    return Stream("toplmo-whole", ops, oracle=False, model_ops=mops, judge=_judge_same, timeout=1800,
                  classify=lambda op, r: op.split()[0] + ("/range" if op.split()[-1] != op.split()[-2] else "/single"))


def _s2_stream(ctx):
    rng, q = ctx.rng, ctx.quick
    ops = []
    xs = list(range(1, 120)) + gen.structured_x(rng, 120, 10 ** 7, 60 if q else 900) + _transitions(rng, 10 ** 7, 2 if q else 20)
    for x in xs:
        x13, sq = max(1, gen.iroot(3, x)), max(1, gen.isqrt(x))
        for y in sorted({sq, x13, min(sq, x13 + 1), rng.randint(x13, sq), rng.randint(max(1, x13 // 2), sq)}):
            if y * y > x:
                continue
            for c in _cs(rng, y)[:3] if q else _cs(rng, y):
                ops.append("toplmo5_S2 %d %d %d" % (x, y, c))
    return _judged("toplmo-S2", ops, False)


def _windows(rng, x, y, z, c, sizes, every):
    """work items over [0, z]: every aligned window (small z) or one row + one chain"""
    ops = []
    head = "%d %d %d %d" % (x, y, z, c)
    for size in sizes:
        n = z // size + 1                      # low = t * size <= z
        if every:
            for t in range(n):
                for segs in range(1, n - t + 2):
                    ops.append("toplmopar_chunk %s %d %d %d" % (head, t * size, segs, size))
        else:
            ops.append("toplmopar_row %s 0 %d %d" % (head, size, n))
            segs, left = [], n + 1
            while left > 0:
                s = rng.randint(1, 13)
                segs.append(s)
                left -= s
            ops.append("toplmopar_chain %s %d 0 %s" % (head, size, " ".join(map(str, segs))))
    return ops


def _chunk_stream(ctx):
    rng, q = ctx.rng, ctx.quick
    ops = []
    # (a) small x: every aligned window
    xs = rng.sample(range(200, 3001), 120 if q else 900)
    for x in xs:
        x13, sq = gen.iroot(3, x), gen.isqrt(x)
        for y in sorted({sq, max(7, x13), rng.randint(max(5, x13), sq)}):
            if y * y > x:
                continue
            z = x // y
            for c in _cs(rng, y)[:2]:
                ops += _windows(rng, x, y, z, c, (240, 480) if q else (240, 480, 720), True)
    # (b) medium x: rows and chains covering [0, z]
    for x in gen.structured_x(rng, 2 * 10 ** 4, 2 * 10 ** 6 if q else 10 ** 8, 150 if q else 900):
        x13, sq = gen.iroot(3, x), gen.isqrt(x)
        y = rng.choice((x13, sq, rng.randint(x13, sq), min(sq, 2 * x13)))
        z = x // y
        if z > 3 * 10 ** 5:
            continue
        c = rng.choice(_cs(rng, y))
        ops += _windows(rng, x, y, z, c, (rng.choice((240, 480, 960, 1920)),), False)
    # (c) a leaf exactly on a window edge 240 t or 240 t - 1
    for _ in range(60 if q else 600):
        y = rng.randint(30, 400)
        ps = gen.primes_upto(y)
        b = rng.randint(4, len(ps) - 1)
        p = ps[b - 1]
        if rng.random() < 0.5 and p * p <= y:
            m = rng.randint(y // p + 1, y)
        else:
            m = ps[rng.randint(b, len(ps) - 1)]
        t = rng.randint(1, 30)
        pos = 240 * t - rng.choice((0, 1))
        x = pos * p * m + rng.randint(0, p * m - 1)
        if y * y > x:
            continue
        z = x // y
        if z > 10 ** 5:
            continue
        c = rng.choice([cc for cc in _cs(rng, y) if cc < b] or [3])
        head = "%d %d %d %d" % (x, y, z, c)
        ops.append("toplmopar_row %s %d 240 3" % (head, 240 * (t - 1)))
        ops.append("toplmopar_chunk %s %d 2 240" % (head, 240 * (t - 1)))
        ops.append("toplmopar_chunk %s 0 %d 240" % (head, z // 240 + 1))
        ops.append("toplmopar_chunk %s 0 1 %d" % (head, 240 * (z // 240 + 1)))
    return _judged("toplmo-chunks", ops, False)


def _offcurve_stream(ctx):
    """mirror only (engine + bit-exact sieve engine): y*y > x, z != x / y, windows starting beyond z"""
    rng, q = ctx.rng, ctx.quick
    ops = []
    for x in list(range(30, 90)) + gen.structured_x(rng, 90, 10 ** 6 if q else 10 ** 7, 60 if q else 600):
        sq = max(2, gen.isqrt(x))
        y = rng.choice((sq + 1, sq + rng.randint(1, sq), min(x, 3 * sq), rng.randint(max(2, gen.iroot(3, x)), sq)))
        z = rng.choice((x // y, x // y + rng.randint(1, y), max(1, x // y - rng.randint(1, 3)), y, rng.randint(1, 3 * (x // y) + 1)))
        z = max(1, z)
        if z > 2 * 10 ** 5:
            continue
        c = rng.choice(_cs(rng, y))
        head = "%d %d %d %d" % (x, y, z, c)
        size = rng.choice((240, 480, 960))
        n = z // size + 1 + rng.choice((0, 1, 2))
        ops.append("toplmopar_row %s 0 %d %d" % (head, size, n))
        ops.append("toplmopar_chunk %s 0 %d %d" % (head, n, size))
        ops.append("toplmopar_chunk %s %d %d %d" % (head, size * rng.randint(0, n), rng.randint(1, 4), size))
        ops.append("toplmo5_S2 %d %d %d" % (x, y, c))
    return _judged("toplmo-offcurve", ops, False, use_def=False)


def _runs_stream(ctx):
    rng, q = ctx.rng, ctx.quick
    ops = []
    for x in gen.structured_x(rng, 10 ** 4, 10 ** 9 if q else 10 ** 11, 14 if q else 80):
        x13, sq = gen.iroot(3, x), gen.isqrt(x)
        y = min(rng.choice((x13, rng.randint(x13, sq), 2 * x13)), sq)
        z = x // y
        c = gen.get_c(y)
        for (t, pr) in ((1, 0), (3, 1), (16, 0)):
            ops.append("toplmopar_run %d %d %d %d %d %d %d 200000" % (x, y, z, c, t, pr, rng.getrandbits(30)))
    # sieve limits just above 2^21 / 3 * 2^20: LoadBalancerS2 runs a team of 2..3 workers (histories of > 20 events)
    for k in range(1 if q else 8):
        zt = rng.choice((2 ** 21, 3 * 2 ** 20)) + rng.randint(1, 2 * 10 ** 5)
        y = gen.isqrt(zt) + rng.randint(0, 50)          # x = y * z with y ~ sqrt(z): y = x^(1/3)
        x = y * zt + rng.randint(0, y - 1)
        if y * y > x or gen.iroot(3, x) > y:
            continue
        for (t, pr) in ((2, 0), (5, 1)) if q else ((2, 0), (3, 1), (5, 0), (16, 1)):
            ops.append("toplmopar_run %d %d %d %d %d %d %d 200000" % (x, y, x // y, gen.get_c(y), t, pr, rng.getrandbits(30)))

    def model_ops(ops_, impl):
        out = []
        for o, a in zip(ops_, impl):
            f, t = o.split(), a.split()
            if not t or t[0] != "R" or len(t) < 6 or t[4] != "1" or int(f[3]) > 6 * 10 ** 6:
                out.append("# no replay: " + a[:40])
                continue
            out.append("toplmopar_run_check %s %s %s %s" % (" ".join(f[1:5]), t[3], f[6], " ".join(t[6:])))
        return [m.rstrip() for m in out]

    def judge(ops_, impl, mops, model):
        dis = _judge_same(ops_, impl, mops, model)
        for i, (o, a) in enumerate(zip(ops_, impl)):
            t = a.split()
            if t and t[0] == "R" and len(t) >= 6 and t[4] == "1" and t[1] != t[2]:
                dis.append(dict(index=i, op=o, impl="whole %s != get_sum() %s" % (t[1], t[2]), model="equal"))
        return dis
    return Stream("toplmo-runs", ops, oracle=False, model_ops=model_ops, judge=judge, timeout=1800,
                  classify=lambda op, r: "threads=%s/print=%s/team=%s" % (op.split()[5], op.split()[6],
                                                                          (r.split() + ["?"] * 4)[3]))


def streams(ctx):
    return [_whole_stream(ctx), _s2_stream(ctx), _chunk_stream(ctx), _offcurve_stream(ctx), _runs_stream(ctx)]
