"""C10 — parallel regions are free of data races (claimed PARTIAL, DESIGN.md 6.10).

Proof part: PcProps/C10.lean (happens-before model, schema_drf, index-range lemmas).
Tie to the code: translator/extract_omp.py regenerates the access summary of every OpenMP region
(PcGen/OmpRegions.lean) and the `decide` obligations (PcGen/OmpObl.lean) on every run.
No oracle stream exists for a race (it is not an input/output behaviour).  The only stream is a
SEARCH/VALIDATION stream: whole algorithms at 2..16 threads against their own 1-thread result; a
difference there is a failing input of C10's second sentence ("no result depends on a racy read").
"""
import os
import re

from .. import core
from ..runner import Stream, emit_violation, default_search, run_stream

EXTRACTORS = ["extract_omp"]

RULE = ("validation stream `threads_vs_single`: op `alg <algorithm> <x> <t>` / `phi_t x a t` for t in {1,2,3,4,7,8,16} on a small corpus "
        "of x (structured + seeded), every t-thread result compared with the 1-thread result of the same call; "
        "distinct = distinct (algorithm, x, t) with t > 1. This stream cannot show the absence of a race; it is a search for a "
        "visible wrong count and a sanity check that the regions really run multi-threaded in this build")
TRUSTED = ["happens-before model PcModel/HB.lean: events, program order, fork/join, lock release->acquire, barrier arrive->leave; "
           "relaxed atomics give NO edges; the OpenMP runtime serialises the combines of one reduction variable (Kind.redCombine atomic)",
           "lock semantics (RegionWF.mutex) and barrier semantics (RegionWF.barrier) of the OpenMP runtime are hypotheses of every theorem",
           "translator/extract_omp.py (clang-14 AST, -fopenmp): classification of every use of an object declared outside a region as "
           "read / write / call / reference argument by its AST context; callee bodies are NOT followed except the member functions "
           "PiTable::init_bits/init_count called on *this; objects reached through pointers or references held by thread-local objects "
           "(PhiCache -> pi, primes: const references) are not tracked",
           "thread-indexed regions (PiTable::init, FactorTable/FactorTableD constructors): that iteration t writes only the elements the "
           "model says (piWordLo..piWordHi, toIndex[ftLow..ftHigh]) was READ from the code by hand; the token text of those five functions is "
           "pinned by hash (PcModel/OmpExpected.lean), any change to them fails an obligation until the model is re-read",
           "regions in *_multiarch_arm_sve.cpp are not parsed (other architecture): their OpenMP function is token-identical to the avx512 sibling",
           "const reference parameters are not written through (no const_cast / mutable members in callee bodies)"]
ASSUMPTIONS = ["team size of `num_threads(n)` is at most max(1, n) (OpenMP specification)",
               "omp_set_lock/omp_unset_lock give mutual exclusion with release->acquire ordering; the implicit barrier of `omp for` "
               "orders everything before it with everything after it",
               "coprime_indexes_[0] = -1, 0 <= coprime_indexes_[r] < 480 for 1 <= r < 2310 (hypotheses h0 h1 h2 of factorTable_* theorems; "
               "table contents belong to C17)",
               "pi_cache_.size() * 240 (cache_limit) is a multiple of 240 (syntactically)"]

THREADS = [2, 3, 4, 7, 8, 16]
ALGS_64 = ["gourdon64", "dr64", "lmo_parallel", "meissel", "lehmer"]


def generated_obligations():
    p = os.path.join(core.LEAN, "PcGen", "OmpObl.lean")
    if not os.path.exists(p):
        return 0
    return len(re.findall(r"^theorem\s", open(p).read(), re.M))


def corpus(ctx, extra=False):
    rng = ctx.rng
    xs = [10 ** 10 + 7, 10 ** 12 + 39, 123456789012345, 10 ** 15]
    xs += [rng.randint(10 ** 11, 10 ** 14) for _ in range(2 if ctx.quick else 12)]
    if not ctx.quick or extra:
        xs += [3 * 10 ** 15 + 1, rng.randint(10 ** 15, 3 * 10 ** 15)]   # 1-thread runs must stay below the 20 s op alarm
    return xs


def make_ops(ctx, repeats=1, extra=False):
    ops = []
    xs = corpus(ctx, extra)
    for x in xs:
        for alg in ALGS_64:
            if alg in ("meissel", "lehmer") and x > 10 ** 13:
                continue
            ops.append("alg %s %d 1" % (alg, x))
            for _ in range(repeats):
                for t in THREADS:
                    ops.append("alg %s %d %d" % (alg, x, t))
    # 128-bit kernels (S2_easy_128 / AC 128 paths) and phi (threshold 1e10)
    for x in ([10 ** 13 + 37] if ctx.quick else [10 ** 13 + 37, 10 ** 15 + 37, 3 * 10 ** 15 + 7]):
        for alg in ("gourdon128raw", "dr128raw"):
            ops.append("alg %s %d 1" % (alg, x))
            for t in THREADS:
                ops.append("alg %s %d %d" % (alg, x, t))
    for (x, a) in ([(3 * 10 ** 10 + 1, 2000), (10 ** 11 + 3, 9000)] if ctx.quick else
                   [(3 * 10 ** 10 + 1, 2000), (10 ** 11 + 3, 9000), (10 ** 12 + 1, 30000), (5 * 10 ** 11, 78000)]):
        ops.append("phi_t %d %d 1" % (x, a))
        for _ in range(repeats):
            for t in THREADS:
                ops.append("phi_t %d %d %d" % (x, a, t))
    return ops


def judge(ops, impl, mops, model):
    ref, dis = {}, []
    for o, r in zip(ops, impl):
        p = o.split()
        if p[-1] == "1":
            ref[tuple(p[:-1])] = r
    for i, (o, r) in enumerate(zip(ops, impl)):
        p = o.split()
        if r in ("HANG", "CRASH", "SKIPPED"):
            continue
        exp = ref.get(tuple(p[:-1]))
        if exp is None or not exp.lstrip("-").isdigit():
            if p[-1] == "1":
                dis.append(dict(index=i, op=o, impl=r, model="a number"))
            continue
        if r != exp:
            dis.append(dict(index=i, op=o, impl=r, model=exp))
    return dis


def nontrivial(op, res):
    return None if op.split()[-1] == "1" else op


def classify(op, res):
    p = op.split()
    return "%s:t=%s" % (p[1] if p[0] == "alg" else p[0], "1" if p[-1] == "1" else ">1")


def threads_stream(ctx, name="threads_vs_single", repeats=1, extra=False):
    ops = make_ops(ctx, repeats, extra)
    return Stream(name, ops, oracle=True, judge=judge, model_ops=lambda o, impl: ["echo -"] * len(o),
                  nontrivial=nontrivial, classify=classify, timeout=1500)


def streams(ctx):
    info = ctx.res.extra.get("translator", {}).get("extract_omp", {})
    if isinstance(info, dict) and "extractor_shape_changed" not in info:
        ctx.res.notes.append("extract_omp: %s regions, %s pragma sites, %s alias regions, %s generated obligations" % (
            info.get("regions"), info.get("pragma_sites"), info.get("aliases"), generated_obligations()))
    ctx.res.extra["level_claimed"] = ("PARTIAL: proof about the happens-before model + generated access summary; the C++ memory accesses "
                                      "themselves are outside Lean (DESIGN.md 6.10); the stream below is validation, not an oracle")
    return [threads_stream(ctx)]


# --------------------------------------------------------------------------- on break

def _expected():
    """parse PcModel/OmpExpected.lean (hand-written, small) for diagnosis messages"""
    src = open(os.path.join(core.LEAN, "PcModel", "OmpExpected.lean")).read()
    regs = [[m.group(1), m.group(2), m.group(3), m.group(4), re.findall(r'"([^"]*)"', m.group(5))]
            for m in re.finditer(r'\("([^"]+)", "([^"]+)", "([^"]+)", \.(\w+), \[([^\]]*)\]\)', src)]
    pinned = dict(re.findall(r'\("([\w:]+)", "([0-9a-f]{16})"\)', src))
    texts = dict((m.group(1)[0].lower() + m.group(1)[1:], m.group(2)) for m in
                 re.finditer(r'def expected(\w+) : String :=\s*"((?:[^"\\]|\\.)*)"', src))
    return regs, pinned, texts


def diagnose(info):
    """-> list of (summary, witness dict) naming region and variable"""
    out = []
    for p in info.get("problems", []):
        out.append(("region %s: object `%s` (%s) is modified in the region without protection [%s]" % (
            p["region"], p["variable"], p["type"], p["how"]),
            dict(region=p["region"], variable=p["variable"], type=p["type"], how=p["how"])))
    regs, pinned, texts = _expected()
    got = info.get("region_keys", [])
    gk = {(r[0], r[1]): r for r in got}
    ek = {(r[0], r[1]): r for r in regs}
    for k in sorted(set(gk) | set(ek)):
        if k not in ek:
            out.append(("new OpenMP region %s in %s (schema %s, %s): not in PcModel/OmpExpected.lean" % (k[1], k[0], gk[k][3], gk[k][4]),
                        dict(region="%s %s" % (k[1], k[0]), variable=None, change="region added")))
        elif k not in gk:
            out.append(("OpenMP region %s in %s disappeared" % (k[1], k[0]),
                        dict(region="%s %s" % (k[1], k[0]), variable=None, change="region removed")))
        elif list(gk[k]) != list(ek[k]):
            out.append(("OpenMP region %s in %s changed: expected directive/schema/clauses %s, found %s" % (k[1], k[0], ek[k][2:], gk[k][2:]),
                        dict(region="%s %s" % (k[1], k[0]), variable=None, expected_summary=ek[k][2:], found_summary=gk[k][2:])))
    for n, h in sorted(info.get("pinned", {}).items()):
        if pinned.get(n) != h:
            out.append(("the body of %s changed (token hash %s, model was read from %s): the index-range model "
                        "(piWordLo/piWordHi, ftLow/ftHigh/toIndex) must be re-read from the code" % (n, h, pinned.get(n)),
                        dict(region=n, variable="index ranges", found_hash=h, expected_hash=pinned.get(n))))
    for n, t in sorted(info.get("texts", {}).items()):
        if n in texts and texts[n].replace('\\"', '"') != t:
            out.append(("%s changed: `%s` (modelled: `%s`)" % (n, t, texts[n]),
                        dict(region="include/OmpLock.hpp / include/RelaxedAtomic.hpp", variable=n, found_text=t, expected_text=texts[n])))
    return out


def search(ctx, proof_broken, bad, dis):
    info = ctx.res.extra.get("translator", {}).get("extract_omp", {})
    found_input = False
    seen = 0
    for d in dis:
        if d.get("crash") or d.get("model_crash"):
            continue
        if seen < 5:
            emit_violation(ctx, "multi-thread result differs from the 1-thread result",
                           "stream %s: `%s` returned %s, the same call with 1 thread returned %s" % (d["stream"], d["op"], d["impl"], d["model"]),
                           dict(failing_input=d["op"], expected=d["model"], observed=d["impl"], stream=d["stream"],
                                key="%s:%s" % (d["stream"], d["op"].replace(" ", "_")),
                                replay_hint="echo '%s' | <cache>/rel/pcharness   (compare with the same line ending in ' 1')" % d["op"]))
        seen += 1
        found_input = True
    rest = [d for d in dis if d.get("crash") or d.get("model_crash")]
    if proof_broken:
        diag = diagnose(info) if isinstance(info, dict) and "extractor_shape_changed" not in info else []
        extra_dis = []
        if not found_input:
            # the search proper: more runs of the regions at 2..16 threads, looking for a visible wrong count
            st = threads_stream(ctx, name="threads_vs_single_search", repeats=3, extra=True)
            extra_dis = [d for d in run_stream(ctx, st) if not d.get("model_crash")]
        wrong = None
        for d in [x for x in dis if not x.get("crash") and not x.get("model_crash")] + extra_dis:
            if not d.get("crash"):
                wrong = d
                break
        if not diag:
            diag = [("obligation or theorem of PcProps.C10 failed: " + proof_broken.split("\n")[0], dict(region=None, variable=None))]
        for summary, w in diag[:8]:
            w = dict(w)
            w["broken"] = proof_broken.split("\n")[0]
            w["lean_error"] = proof_broken[:1500]
            if wrong is not None:
                w.update(failing_input=wrong["op"], expected=wrong["model"], observed=wrong["impl"], stream=wrong["stream"])
            else:
                w["failing_input"] = None
                w["search"] = ("ran %d multi-thread calls (t in %s, 3 repeats) against their 1-thread results: no wrong count seen; "
                               "a race cannot be exhibited by an input in this technique" % (
                                   ctx.res.stream_stats.get("threads_vs_single_search", {}).get("ops", 0), THREADS))
            emit_violation(ctx, "access summary of an OpenMP region no longer instantiates a proved race-free schema", summary, w)
        proof_broken = None
    default_search(ctx, proof_broken, bad, rest)
    return True
