"""C04 — results do not depend on the alpha tuning factors."""
from ..runner import Stream
from .. import gen
from .. import params_streams

RULE = ("algalpha_all x alpha alpha_y alpha_z over the algorithms that read a tuning factor (lmo5, lmo_parallel, dr64, dr128raw, "
        "gourdon64, gourdon128raw): full 3-decimal grid in [0, 2*x^(1/6)] for small x, endpoints/dense-near-1 + seeded sample beyond; "
        "params_* ops: the derived (y,z,k|c,x_star) against the Lean L2 clamps fed with the implementation's alpha bit patterns; "
        "distinct = distinct (x, alpha...) with a non-default alpha")
TRUSTED = ["alpha values (libm log) are taken from the implementation as bit patterns; the float products and clamps are recomputed in Lean",
           "count oracle = sieve for x <= 6e7, agreement with default tuning beyond"]
ASSUMPTIONS = ["finite alpha values; the only other permitted outcome is ERR:pc (range error) for the 128-bit entry points"]
NAMES = ["lmo5", "lmo_parallel", "dr64", "dr128raw", "gourdon64", "gourdon128raw"]


def streams(ctx):
    rng = ctx.rng
    ops = []
    # exhaustive small x with a grid of alphas (in thousandths)
    xs = list(range(2, 40 if ctx.quick else 400)) + gen.structured_x(rng, 400, 10 ** 4, 20 if ctx.quick else 300)
    for x in xs:
        x16m = max(1, gen.iroot(6, x)) * 1000
        grid = sorted(set([-1, 0, 999, 1000, 1001, 1500, x16m - 1, x16m, x16m + 1, 2 * x16m]
                          + [rng.randint(0, 2 * x16m) for _ in range(3 if ctx.quick else 12)]))
        for al in grid:
            ay = rng.choice(grid)
            az = rng.choice(grid)
            ops.append("algalpha_all %d %d %d %d %d %s" % (x, rng.choice((1, 4)), al, ay, az, " ".join(NAMES)))
    for x in gen.structured_x(rng, 10 ** 4, 5 * 10 ** 7, 40 if ctx.quick else 800) + \
            gen.structured_x(rng, 10 ** 8, 10 ** 11 if ctx.quick else 10 ** 13, 15 if ctx.quick else 300):
        x16m = max(1, gen.iroot(6, x)) * 1000
        for _ in range(2):
            al = rng.choice((1000, x16m, rng.randint(1000, x16m), rng.randint(0, 2 * x16m)))
            # keep DR/LMO alpha moderate for big x (run time), Gourdon alphas over the whole range
            if x > 10 ** 9:
                al = min(al, 20000)
            ay = rng.choice((-1, 1000, x16m, rng.randint(1000, x16m), rng.randint(0, 2 * x16m)))
            az = rng.choice((-1, 1000, x16m, rng.randint(1000, max(1000, x16m // 2)), rng.randint(0, 2 * x16m)))
            names = NAMES if x < 10 ** 9 else ["dr64", "dr128raw", "gourdon64", "gourdon128raw"]
            ops.append("algalpha_all %d %d %d %d %d %s" % (x, rng.choice((1, 4, 16)), al, ay, az, " ".join(names)))
            ops.append("algalpha_all %d 16 -1 -1 -1 gourdon64" % x)

    def judge(ops, impl, mops, model):
        dis = []
        default = {}
        for o, a in zip(ops, impl):
            p = o.split()
            if p[3:6] == ["-1", "-1", "-1"] and p[6:] == ["gourdon64"]:
                default[p[1]] = a
        for i, (o, a, b) in enumerate(zip(ops, impl, model)):
            va, vb = a.split(), b.split()
            x = o.split()[1]
            exp = vb[0] if vb and vb[0] != "?" else default.get(x)
            bad = [v for v in va if v != exp and v != "ERR:pc"]
            # ERR:pc (range error) is only permitted for the 128-bit raw entry points
            names = o.split()[6:]
            bad += [n for n, v in zip(names, va) if v == "ERR:pc" and not n.endswith("128raw")]
            if bad or exp is None:
                dis.append(dict(index=i, op=o, impl=a, model=str(exp)))
        return dis

    def nontrivial(op, res):
        p = op.split()
        return op if p[3:6] != ["-1", "-1", "-1"] else None
    st1 = Stream("counts_under_alpha", ops, oracle=True, judge=judge, nontrivial=nontrivial, timeout=3000)

    # parameter derivation: exact integer logic against the Lean clamps
    pops = []
    for x in list(range(1, 200)) + gen.structured_x(rng, 200, 10 ** 31, 400 if ctx.quick else 20000):
        x16m = max(1, gen.iroot(6, x)) * 1000
        ay = rng.choice((-1, 0, 1000, x16m, rng.randint(0, 2 * x16m)))
        az = rng.choice((-1, 0, 1000, x16m, rng.randint(0, 2 * x16m)))
        pops.append("params_gourdon %d %d %d" % (x, ay, az))
        pops.append("params_dr %d %d" % (x, rng.choice((-1, 1000, x16m, rng.randint(0, 2 * x16m)))))

    def model_ops(ops, impl):
        out = []
        for o, a in zip(ops, impl):
            p, r = o.split(), a.split()
            if p[0] == "params_gourdon" and len(r) == 7:
                out.append("params_gourdon_chk %s %s %s" % (p[1], r[5], r[6]))
            elif p[0] == "params_dr" and len(r) == 5:
                out.append("params_dr_chk %s %s %s" % (p[1], r[4], r[3]))
            else:
                out.append("# unparsable " + a)
        return out

    def pjudge(ops, impl, mops, model):
        dis = []
        for i, (o, a, b) in enumerate(zip(ops, impl, model)):
            r = a.split()
            got = " ".join(r[:4]) if o.startswith("params_gourdon") else " ".join(r[:3])
            if got != b:
                dis.append(dict(index=i, op=o, impl=a, model=b))
                continue
            # L1 monitor (what C04/C12 state): ordering of the derived parameters
            if o.startswith("params_gourdon"):
                x = int(o.split()[1])
                y, z, k, xs = map(int, r[:4])
                x13, sq = gen.iroot(3, x), gen.isqrt(x)
                if x >= 64 and not (x13 < y < sq and y <= z < sq and 1 <= xs <= y and k <= 8):
                    dis.append(dict(index=i, op=o, impl=a, model="ordering x13<y<=z<sqrt, 1<=x_star<=y violated", monitor=True))
        return dis
    st2 = Stream("parameter_derivation", pops, oracle=False, model_ops=model_ops, judge=pjudge, timeout=600)
    return [st1, st2] + params_streams.c04_streams(ctx)


search = params_streams.params_search
