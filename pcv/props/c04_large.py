"""C04 — counts under extreme tuning at magnitudes where the tables are built by several threads (z > 10^7) and the leaf
classes of D / A+C are far from the default curve (z / y up to x^(1/6)): `primecount <x> -g|-d --alpha-y=.. --alpha-z=..`
for the corners and a few interior points of the admissible tuning rectangle must all print the same count (the property
itself: the count does not depend on the tuning factors). Seeded change C04-b / C17-b (FactorTableD built by >= 2 threads
keeps composites with a prime factor > y when z / y >= 29) is visible only here: default tuning has z / y <= 2."""
import os
from ..runner import Stream
from .. import core, gen

RULE = ("x in {2e14, 1e15} (+ 2 random in [1e14, 2e15]); Gourdon with (alpha_y, alpha_z) in {default, (1, max), (1, 1), (max, 1), "
        "(mid, mid), random}, Deleglise-Rivat with alpha in {default, 1, max, random}; --threads=4 and 16; distinct = distinct "
        "command lines; the reference of each group is its default-tuning value")
TRUSTED = ["judges the property directly: all tunings must give the default-tuning value (which C01 / C08 judge)"]
ASSUMPTIONS = ["run time limits x to ~2e15"]


def streams(ctx):
    rng = ctx.rng
    exe = os.path.join(core.ensure_build("rel"), "primecount")
    xs = [2 * 10 ** 14, 10 ** 15] + ([] if ctx.quick else [rng.randint(10 ** 14, 2 * 10 ** 15) for _ in range(4)])
    ops, groups = [], []
    for x in xs:
        x16 = gen.iroot(6, x)
        tun = [[], ["--alpha-y=1", "--alpha-z=%d" % x16], ["--alpha-y=1", "--alpha-z=1"], ["--alpha-y=%d" % x16, "--alpha-z=1"],
               ["--alpha-y=%.3f" % rng.uniform(1.5, 6), "--alpha-z=%.3f" % rng.uniform(20, 110)],
               ["--alpha-y=%.3f" % rng.uniform(1, x16 ** 0.5), "--alpha-z=%.3f" % rng.uniform(1, x16 ** 0.5)]]
        st = len(ops)
        for t in tun:
            ops.append("clit 150 %s %d -g %s --threads=%d" % (exe, x, " ".join(t), rng.choice((4, 16))))
        groups.append((st, len(tun), x, "-g"))
        tun = [[], ["--alpha=1"], ["--alpha=%d" % x16], ["--alpha=%.3f" % rng.uniform(1, x16)]]
        st = len(ops)
        for t in tun:
            ops.append("clit 150 %s %d -d %s --threads=%d" % (exe, x, " ".join(t), rng.choice((4, 16))))
        groups.append((st, len(tun), x, "-d"))

    def judge(ops_, impl, mops, model):
        dis = []
        for st, n, x, alg in groups:
            ref = impl[st]
            for j in range(1, n):
                if impl[st + j] != ref or not ref.startswith("rc=0 res=") or ref.endswith("none"):
                    dis.append(dict(index=st + j, op=ops_[st + j].split(" ", 3)[3] if len(ops_[st + j].split(" ", 3)) > 3 else ops_[st + j],
                                    impl=impl[st + j], model="%s (default tuning: `%s`)" % (ref, " ".join(ops_[st].split()[3:]))))
        return dis

    return [Stream("counts_under_extreme_alpha_large_x", ops, oracle=True, model_ops=lambda ops_, impl: ["# " + o for o in ops_],
                   judge=judge, timeout=3000, env={"PCV_OP_TIMEOUT": "200"},
                   classify=lambda o, r: "gourdon" if " -g" in o else "dr")]
