"""C19 — Li, R and their inverses are accurate, consistent and never overflow   (claimed PARTIAL).

Stream `lir`: ops `Li|Li_inv|R|R_inv <i64|i128> <x>` on the real code (harness prints result and logl as an
exact binary fraction); every answer becomes a judge line for pcdrv (`lirj`), which encloses the defining
series in fixed-point interval arithmetic at its own enclosure of log x (cross-checked against the harness'
logl within one ulp) and accepts the integer result iff it is the truncation of a value within the documented
relative slack of that enclosure:  2^-46 (double path, x <= 10^8), 2^-54 (long double), 2^-100 (__float128).
Inverses: f(t) <~ n <~ f(t+1) with the same slack, saturation only where f(max) <~ n, never a value outside
[0, max]. Independent of libm: monotonicity on the sorted arguments (`lirmono`), exact values for guarded small
arguments, the exact-rational model of the code run with a precise logarithm (`lirmodel`, subset).
Stream `approx`: S2_approx / D_approx (exact integer arithmetic around Li)."""
import math
import os
import re
import sys
from decimal import Decimal as D, getcontext

from ..runner import Stream
from .. import core

EXTRACTORS = ["extract_zeta"]

RULE = ("arguments: log-uniform integers in [1, 2^127) (seeded), both overloads below 2^63, plus boundaries -5..3, -2^63, "
        "10^8, 10^14, 2^63, 2^64, 10^31, 2^127-1 (each +-2), and 800 consecutive long-double steps around f(2^63-1) and "
        "f(2^127-1) for both inverses (saturation edge); distinct = distinct (fn, type, x) with |x| > 3")
TRUSTED = ["the Gram series / the series gamma + log L + sum L^k/(k k!) ARE R(x) / li(x), the atanh series IS log: classical "
           "analysis, not formalised (the enclosures of the series themselves are computed with outward rounding; "
           "gramFx_sound proves the Gram part against the exact-rational model)",
           "gamma and li(2) literals of the code are correct to one unit of their 36th digit (lir_consts checks them against "
           "each other)",
           "libm logl is only cross-checked (within 1 ulp of the driver's own enclosure), not relied upon",
           "documented slack per float width: relative 2^-46 double, 2^-54 long double, 2^-100 __float128 (not built here)"]
ASSUMPTIONS = ["x87 80-bit long double (static_assert in the harness); HAVE_FLOAT128 as reported by the harness op lir_config",
               "NaN / infinity inside the float kernels are not modelled"]

FNS = ("Li", "Li_inv", "R", "R_inv")
I64MAX, I128MAX = 2 ** 63 - 1, 2 ** 127 - 1


def generated_obligations():
    tdir = os.path.join(core.ROOT, "translator")
    if tdir not in sys.path:
        sys.path.insert(0, tdir)
    import extract_zeta
    return extract_zeta.N_OBLIGATIONS


# ---- input selection only (never an oracle): Decimal evaluation of li / R to place the saturation scans

def _zeta_literals():
    src = open(os.path.join(core.REPO, "src", "RiemannR.cpp")).read()
    lits = re.findall(r"^\s+(\d\.\d+)L,?$", src, re.M)
    return [None, None] + [D(l) for l in lits]


def _series(L, zeta):
    s, t, k = D(0), D(1), 0
    while True:
        k += 1
        t = t * L / k
        z = zeta[k + 1] if (zeta is not None and k + 1 < len(zeta)) else D(1)
        c = t / (z * k)
        s += c
        if k > L and c < D(10) ** -50:
            return s


def _f_at(fn, x):
    getcontext().prec = 70
    L = D(x).ln()
    if fn == "R_inv":
        return int(1 + _series(L, _zeta_literals()))
    gamma = D("0.57721566490153286060651209008240243104215933593992")
    li2 = D("1.04516378011749278484458888919461313652261557815120")
    return int(gamma + L.ln() + _series(L, None) - li2)


def args_main(ctx):
    n = 5000 if ctx.quick else 100000
    rng = ctx.rng
    xs = []
    lo, hi31, hi127 = math.log(1.0), math.log(1e31), 127 * math.log(2.0)
    for i in range(n):
        top = hi127 if i % 5 == 0 else hi31
        x = int(math.exp(rng.uniform(lo, top)))
        if x.bit_length() > 52:       # fill the low bits that exp() of a double cannot produce
            x ^= rng.getrandbits(x.bit_length() - 40)
        x = max(1, min(x, I128MAX))
        ty = "i128" if x > I64MAX or rng.random() < 0.35 else "i64"
        xs.append((ty, x))
    for ty in ("i64", "i128"):
        for x in range(-5, 4):
            xs.append((ty, x))
        xs.append((ty, -2 ** 63))
        for c in (10 ** 8, 10 ** 14, 1600, 1200000, 2 ** 53, 10 ** 15, 10 ** 18, 2 ** 63 - 3):
            for d in (-2, -1, 0, 1, 2):
                xs.append((ty, c + d))
    for c in (2 ** 63, 2 ** 64, 10 ** 31, 2 ** 126, 2 ** 127 - 3):
        for d in (-2, -1, 0, 1, 2):
            xs.append(("i128", c + d))
    xs.append(("i128", -2 ** 127))
    return xs


def args_saturation(ctx):
    """arguments n of the inverses around f(max): 800 consecutive steps of the float the argument is converted to"""
    out = []
    for fn in ("R_inv", "Li_inv"):
        for ty, mx in (("i64", I64MAX), ("i128", I128MAX)):
            n0 = _f_at(fn, mx)
            step = max(1, 2 ** (n0.bit_length() - 64))
            base = (n0 // step) * step
            cnt = 400 if not ctx.quick else 250
            for j in range(-cnt, cnt):
                v = base + j * step
                if ty == "i64":
                    v = base + j * 7          # below 2^64 every integer is a long double: sample a window
                out.append((fn, ty, v))
    # regression guards of the repaired `res >= (FLOAT) max` (witnesses of the former wrap to INT128_MIN)
    out.append(("R_inv", "i128", 1955242947131567278290855949957595136))
    out.append(("Li_inv", "i128", 1955242947131567260420572628551467008))
    out.append(("Li_inv", "i128", 1955242947131567265752834587358134272))
    return out


def streams(ctx):
    ops = ["lir_config", "lir_consts"]
    seen = set()
    for ty, x in args_main(ctx):
        for fn in FNS:
            k = (fn, ty, x)
            if k not in seen:
                seen.add(k)
                ops.append("%s %s %d" % k)
    for k in args_saturation(ctx):
        if k not in seen:
            seen.add(k)
            ops.append("%s %s %d" % k)
    nmodel = 150 if ctx.quick else 2000
    state = {}

    def model_ops(ops_, impl):
        cfg = "1" if impl[0] == "f128=1" else "0"
        lines, back = [], []
        lines.append("lir_config"); back.append(0)
        lines.append("lir_consts"); back.append(1)
        direct = {"Li": [], "R": []}
        cand = []
        for i in range(2, len(ops_)):
            fn, ty, x = ops_[i].split()
            parts = impl[i].split()
            if len(parts) == 3:
                lines.append("lirj %s %s %s %s %s %s %s" % (cfg, fn, ty, x, parts[0], parts[1], parts[2]))
                if fn in direct and re.fullmatch(r"-?\d+", parts[0]):
                    direct[fn].append((int(x), ty, int(parts[0]), i))
                if re.fullmatch(r"-?\d+", parts[0]) and 3 < int(x) < 10 ** 13:
                    cand.append(i)
            else:
                lines.append("lirj %s %s %s %s %s 0 0" % (cfg, fn, ty, x, parts[0] if parts else "EMPTY"))
            back.append(i)
        # monotonicity on the sorted arguments (both overloads interleaved)
        for fn, lst in direct.items():
            lst.sort()
            for (x1, t1, r1, i1), (x2, t2, r2, i2) in zip(lst, lst[1:]):
                lines.append("lirmono %s %s %s %d %d %d %d" % (cfg, fn, t2, x1, r1, x2, r2))
                back.append(i2)
        # the exact-rational model of the code on a subset (evenly spread over the candidates)
        if cand:
            stepc = max(1, len(cand) // nmodel)
            for i in cand[::stepc]:
                fn, ty, x = ops_[i].split()
                lines.append("lirmodel %s %s %s %s %s" % (cfg, fn, ty, x, impl[i].split()[0]))
                back.append(i)
        state["back"] = back
        return lines

    def judge(ops_, impl, mops, model):
        dis = []
        back = state["back"]
        if impl[0] not in ("f128=0", "f128=1"):
            dis.append(dict(index=0, op=ops_[0], impl=impl[0], model="f128=0|1"))
        worst = {}
        for j, (ml, mo) in enumerate(zip(mops, model)):
            i = back[j]
            mm = re.fullmatch(r"ok(?: (\d+))?", mo)
            if not mm:
                dis.append(dict(index=i, op=ops_[i], impl=impl[i], model="%s -> %s" % (ml, mo)))
            elif mm.group(1) and ml.startswith("lirj "):
                c = classify(ops_[i], None)
                b = int(mm.group(1))
                if c not in worst or b < worst[c][0]:
                    worst[c] = (b, ops_[i])
        # observed accuracy (largest sigma such that the result is still accepted with slack 2^-sigma; 90 = cap)
        ctx.res.extra["observed_min_bits"] = {c: dict(bits=b, op=o) for c, (b, o) in sorted(worst.items())}
        return dis

    def nontrivial(op, res):
        p = op.split()
        return op if len(p) == 3 and abs(int(p[2])) > 3 else None

    def classify(op, res):
        p = op.split()
        if len(p) != 3:
            return p[0]
        x = int(p[2])
        return "%s/%s/%s" % (p[0], p[1], "small" if x <= 3 else "dbl" if x <= 10 ** 8 else "ld<=1e14" if x <= 10 ** 14
                             else "ld<2^63" if x <= I64MAX else "ld>=2^63")

    st = [Stream("lir", ops, oracle=True, model_ops=model_ops, judge=judge, nontrivial=nontrivial, classify=classify,
                 timeout=1800)]

    # S2_approx / D_approx: exact integer arithmetic around Li(x)
    rng = ctx.rng
    aops = []
    for _ in range(300 if ctx.quick else 5000):
        ty = rng.choice(("i64", "i128"))
        x = int(math.exp(rng.uniform(math.log(10.0), math.log(1e18 if ty == "i64" else 1e31))))
        lix = max(1, int(x / max(1.0, math.log(x))))
        a, b, c, d = [rng.randrange(0, 2 * lix) for _ in range(4)]
        piy = rng.randrange(0, min(2 * lix, 2 ** 62))
        aops.append("S2_approx %s %d %d %d %d" % (ty, x, piy, a, b))
        aops.append("D_approx %s %d %d %d %d %d" % (ty, x, a // 2, b // 2, c // 2, d // 2))

    def approx_model_ops(ops_, impl):
        return ["%s %s" % (o, (r.split() or ["ERR"])[0]) for o, r in zip(ops_, impl)]
    st.append(Stream("approx", aops, oracle=True, model_ops=approx_model_ops, timeout=300))
    return st
