"""C08 (wp-s1phi0) — streams of the LOOP MIRRORS of S1 / Phi0 / Sigma / S2_trivial (lean/PcModel/LeafLoops.lean).

The harness ops are the existing internal entry points `S1`, `Phi0`, `Sigma`, `S2_trivial` (harness/ops_alg.cpp) plus the
file-local functions `S1_thread<MU>`, `Phi0_thread<MU>`, `Sigma0..3/Sigma456` (harness/ops_leafloops.cpp,
ops_sigmaparts.cpp).  Every op list is judged twice where possible:
  * mirror: pcdrv executes the control-flow mirror (`*_loop`, `s1thread`, `phi0thread`, `sigma_parts`),
    which PcProps/C08Leaf.lean proves equal to the Pc.Spec definition for all admissible parameters;
  * definition (oracle=True): pcdrv evaluates the naive defining sum (PcModel/Formulas.lean), as the older streams do.
"""
from ..runner import Stream
from .. import gen

LOOP = {"S1": "S1_loop", "Phi0": "Phi0_loop", "Sigma": "Sigma_loop", "S2_trivial": "S2_trivial_loop",
        "s1thread": "s1thread", "phi0thread": "phi0thread", "sigma_parts": "sigma_parts"}


def _rename(mapping):
    def f(ops, impl):
        out = []
        for o in ops:
            p = o.split(" ", 1)
            out.append(mapping[p[0]] + (" " + p[1] if len(p) > 1 else ""))
        return out
    return f


def _pi(n):
    return len([p for p in gen.primes_upto(max(n, 2)) if p <= n])


def _nontrivial(op, res):
    p = op.split()
    return op if int(p[2]) > 100 else None


def _classify(op, res):
    p = op.split()
    x = int(p[2])
    size = "x<=2e3" if x <= 2000 else "x<=1e9" if x <= 10 ** 9 else "x<=1e12" if x <= 10 ** 12 else "x>1e12"
    return "%s/%s/%s" % (p[0], p[1], size)


def small_ops(ctx):
    """exhaustive small scope: every x up to a bound x every admissible parameter choice"""
    q = ctx.quick
    s1, phi0, sigma, triv = [], [], [], []
    # S1(x, y, c): every y in [1, sqrt(x) + 2], every c <= 8 (the theorem needs nothing else; c > pi(y) included)
    for x in range(1, (600 if q else 2000) + 1):
        sq = gen.isqrt(x)
        for y in range(1, sq + 3):
            for c in range(0, 9):
                s1.append("S1 64 %d %d %d 1" % (x, y, c))
    # Phi0(x, y, z, k): every 1 <= y <= z <= sqrt(x) + 1, every k <= 8
    for x in range(1, (200 if q else 700) + 1):
        sq = gen.isqrt(x)
        for y in range(1, sq + 2):
            for z in range(y, sq + 2):
                for k in range(0, 9):
                    phi0.append("Phi0 64 %d %d %d %d 1" % (x, y, z, k))
    # Sigma(x, y): every y in [x13, sqrt(x) + 2] (y < x13 makes the real code read pi[] beyond its table)
    for x in range(1, (4000 if q else 20000) + 1):
        x13, sq = gen.iroot(3, x), gen.isqrt(x)
        for y in range(max(x13, 1), sq + 3):
            sigma.append("Sigma 64 %d %d 1" % (x, y))
    # S2_trivial(x, y, z, c): y in [1, sqrt(x) + 2]; z = x / y (Deleglise-Rivat) and larger z; 1 <= c <= min(8, pi(y) + 1)
    for x in range(1, (800 if q else 2000) + 1):
        sq = gen.isqrt(x)
        for y in range(1, sq + 3):
            z0 = x // y
            for z in sorted({z0, z0 + 1, z0 + y, 2 * z0 + 3, x}):
                for c in range(1, min(8, _pi(y) + 1) + 1):
                    triv.append("S2_trivial 64 %d %d %d %d 1" % (x, y, z, c))
    return s1, phi0, sigma, triv


def thread_ops(ctx):
    """the file-local recursions with arbitrary start state (mu, b, square_free)"""
    rng = ctx.rng
    ops = []
    # exhaustive: small x, every y, c, b, both signs, square_free in {primes[b], every number 1..y}
    for x in range(1, (40 if ctx.quick else 120) + 1):
        for y in range(1, gen.isqrt(x) + 3):
            a = _pi(y)
            ps = [0] + [p for p in gen.primes_upto(max(y, 2)) if p <= y]
            for c in (0, 1, 2, 3):
                for b in range(0, a + 2):
                    sqs = set(range(1, y + 2))
                    if b <= a:
                        sqs.add(max(ps[b], 1))
                    for sq in sorted(sqs):
                        mu = rng.choice((1, -1))
                        ops.append("s1thread 64 %d %d %d %d %d %d" % (x, y, c, mu, b, sq))
                        z = rng.randint(y, y + 6)
                        ops.append("phi0thread 64 %d %d %d %d %d %d %d" % (x, y, z, c, -mu, b, sq))
    # sampled: x up to 1e12, b anywhere, square_free = a square-free product of larger primes / an arbitrary number
    n = 400 if ctx.quick else 4000
    for x in gen.structured_x(rng, 10 ** 3, 10 ** 12, n):
        w = rng.choice(("64", "128"))
        y = gen.dr_y(rng, x)
        gy, gz = gen.gourdon_yz(rng, x)
        for (op, yy, zz, cc) in (("s1thread", y, None, rng.choice((gen.get_c(y), rng.randint(0, 8)))),
                                 ("phi0thread", gy, gz, rng.choice((gen.get_k(x), rng.randint(0, 8))))):
            ps = [0] + [p for p in gen.primes_upto(max(yy, 2)) if p <= yy]
            a = len(ps) - 1
            lim = zz if zz is not None else yy
            b = rng.choice((cc, min(cc + 1, a), rng.randint(0, a), a, max(a - 1, 0), a + 1))
            kind = rng.randrange(4)
            if kind == 0 or b > a or b == 0:
                sq = rng.randint(1, lim + 1)
            elif kind == 1:
                sq = ps[b]
            else:
                # product of primes with increasing indices ending at b, as the recursion itself produces
                sq, i = ps[b], b
                while i > 1 and rng.random() < 0.6:
                    i = rng.randint(1, i - 1)
                    if sq * ps[i] > lim:
                        break
                    sq *= ps[i]
            mu = rng.choice((1, -1))
            if zz is None:
                ops.append("%s %s %d %d %d %d %d %d" % (op, w, x, yy, cc, mu, b, sq))
            else:
                ops.append("%s %s %d %d %d %d %d %d %d" % (op, w, x, yy, zz, cc, mu, b, sq))
    return ops


def sampled_ops(ctx):
    """boundary-heavy samples: root transitions, table / wheel boundaries, both widths, several team sizes"""
    rng = ctx.rng
    mirror, defs = [], []
    n1 = 150 if ctx.quick else 1200
    for x in gen.structured_x(rng, 2000, 10 ** 9, n1):
        w = rng.choice(("64", "128"))
        t = rng.choice((1, 2, 5, 16))
        yd = gen.dr_y(rng, x)
        y, z = gen.gourdon_yz(rng, x)
        # (c | k <= pi(y): the definitions judge evaluates the defining sum over a table that reaches y)
        c = rng.choice((gen.get_c(yd), gen.get_c(yd), min(rng.randint(0, 8), gen.get_c(yd))))
        k = rng.choice((gen.get_k(x), gen.get_k(x), min(rng.randint(0, 8), gen.get_c(y))))
        ops = ["S1 %s %d %d %d %d" % (w, x, yd, c, t),
               "Phi0 %s %d %d %d %d %d" % (w, x, y, z, k, t),
               "Sigma %s %d %d %d" % (w, x, y, t),
               "S2_trivial %s %d %d %d %d %d" % (w, x, yd, x // yd, max(gen.get_c(yd), 1), t)]
        mirror += ops + ["sigma_parts %s %d %d" % (w, x, y)]
        if x // max(min(y, yd), 1) <= 3 * 10 ** 6:
            defs += ops
    # beyond the reach of the naive sums for Sigma / S2_trivial: mirror only (S1 / Phi0 definitions stay cheap: O(y))
    n2 = 60 if ctx.quick else 500
    for x in gen.structured_x(rng, 10 ** 9, 10 ** 12, n2):
        w = rng.choice(("64", "128"))
        t = rng.choice((1, 3, 16))
        yd = min(gen.dr_y(rng, x), gen.iroot(3, x) * 30)
        y, z = gen.gourdon_yz(rng, x, 0.3)
        y = min(y, gen.iroot(3, x) * 30)
        z = max(min(z, y * 4), y)
        c, k = gen.get_c(yd), gen.get_k(x)
        mirror += ["S1 %s %d %d %d %d" % (w, x, yd, c, t),
                   "Phi0 %s %d %d %d %d %d" % (w, x, y, z, k, t),
                   "Sigma %s %d %d %d" % (w, x, y, t),
                   "sigma_parts %s %d %d" % (w, x, y),
                   "S2_trivial %s %d %d %d %d %d" % (w, x, yd, x // yd, c, t)]
        defs += ["S1 %s %d %d %d %d" % (w, x, yd, c, t), "Phi0 %s %d %d %d %d %d" % (w, x, y, z, k, t)]
    # 128-bit only range and teams of more than one thread (ideal_num_threads(y, threads, 1e6) > 1 needs y > 1e6)
    big = [(10 ** 15, 1), (2 ** 63 - 1, 1), (2 ** 63, 1), (10 ** 19 + 3, 2), (10 ** 20, 2)]
    if not ctx.quick:
        big += [(10 ** 22 + 7, 3), (10 ** 24, 3)]
    for x, mult in big:
        x13 = gen.iroot(3, x)
        w = "128" if x >= 2 ** 63 else rng.choice(("64", "128"))
        y = min(x13 * mult + rng.randint(1, 50), 4 * 10 ** 6)
        z = y + rng.randint(0, y)
        t = rng.choice((2, 4, 7))
        mirror += ["S1 %s %d %d 8 %d" % (w, x, y, t), "Phi0 %s %d %d %d 8 %d" % (w, x, y, z, t)]
    for x in (10 ** 13, 10 ** 14 + 11):
        y = rng.randint(2 * 10 ** 6, 3 * 10 ** 6)
        mirror += ["S1 64 %d %d 8 4" % (x, y), "Phi0 128 %d %d %d 8 3" % (x, y, y + rng.randint(0, 10 ** 6))]
    return mirror, defs


def error_ops(ctx):
    """what the real code rejects: nth_prime(c) throws for c < 1 (S2_trivial with y >= 2); y < 2 returns 0 first"""
    ops = []
    for x, y in ((100, 5), (1000, 12), (10 ** 6, 150), (10 ** 6, 1), (10 ** 6, 0), (7, 2)):
        ops.append("S2_trivial 64 %d %d %d 0 1" % (x, y, x // max(y, 1)))
        ops.append("S2_trivial 128 %d %d %d 0 2" % (x, y, x // max(y, 1)))
    return ops


def streams(ctx):
    s1, phi0, sigma, triv = small_ops(ctx)
    small = s1 + phi0 + sigma + triv
    # oracle=True: every input below satisfies the hypotheses of PcProps/C08Leaf.lean (s1_loop_op, phi0_loop_op,
    # sigma_loop_eq_executable, s2_trivial_loop_eq_executable, s2_trivial_rejects_c0), so the mirror's answer is a PROVED
    # value of the definition and a disagreement is a failing input of the property
    sts = [Stream("leafloops_small_mirror", small + error_ops(ctx), oracle=True, model_ops=_rename(LOOP),
                  nontrivial=_nontrivial, classify=_classify, timeout=1500)]
    # the same op lines against the naive defining sums (existing model ops S1 / Phi0 / Sigma / S2_trivial).
    # The older model ops size their table by (x, y, z) only, so the defining sum is evaluated over the first
    # pi(y) primes: keep c | k <= pi(y) here (the mirror stream above has every c | k <= 8).
    defs_small = ([o for o in s1 if int(o.split()[4]) <= _pi(int(o.split()[3]))] +
                  [o for o in phi0 if int(o.split()[5]) <= _pi(int(o.split()[3]))] + sigma +
                  [o for o in triv if int(o.split()[5]) <= _pi(int(o.split()[3]))])
    sts.append(Stream("leafloops_small_definitions", defs_small, oracle=True, nontrivial=_nontrivial,
                      classify=_classify, timeout=1500))
    sts.append(Stream("leafloops_thread_functions", thread_ops(ctx), oracle=False, nontrivial=_nontrivial,
                      classify=_classify, timeout=1500))
    mirror, defs = sampled_ops(ctx)
    sts.append(Stream("leafloops_sampled_mirror", mirror, oracle=True, model_ops=_rename(LOOP),
                      nontrivial=_nontrivial, classify=_classify, timeout=1800))
    sts.append(Stream("leafloops_sampled_definitions", defs, oracle=True, nontrivial=_nontrivial,
                      classify=_classify, timeout=1800))
    return sts


def c03_streams(ctx):
    """C03: S1 / Phi0 under REAL teams of more than one thread (ideal_num_threads(y, threads, 1e6) > 1 needs y > 1e6):
    the same (x, y, c) with several `threads` values must give the value of the mirror, which PcProps/C03Leaf.lean proves
    independent of the distribution of the `omp for` iterations."""
    rng = ctx.rng
    ops = []
    for x in ((10 ** 13 + rng.randint(0, 10 ** 6), 2 ** 62 - rng.randint(0, 999)) if ctx.quick else
              (10 ** 13 + rng.randint(0, 10 ** 6), 10 ** 15 + 37, 2 ** 62 - rng.randint(0, 999), 2 ** 63 - 1)):
        y = rng.randint(2 * 10 ** 6 + 1, 35 * 10 ** 5)
        z = y + rng.randint(0, 10 ** 6)
        c = rng.choice((8, 8, rng.randint(0, 7)))
        for t in (1, 2, 4) if ctx.quick else (1, 2, 3, 4, 16):
            ops.append("S1 64 %d %d %d %d" % (x, y, c, t))
            ops.append("Phi0 128 %d %d %d %d %d" % (x, y, z, c, t))
    # small y: the team is clamped to one thread whatever is asked for
    for x in gen.structured_x(rng, 10 ** 4, 10 ** 10, 20 if ctx.quick else 200):
        y, z = gen.gourdon_yz(rng, x)
        for t in (1, 7, 64):
            ops.append("S1 64 %d %d %d %d" % (x, y, gen.get_c(y), t))
            ops.append("Phi0 64 %d %d %d %d %d" % (x, y, z, gen.get_k(x), t))
    return [Stream("leafloops_teams", ops, oracle=True, model_ops=_rename(LOOP), nontrivial=_nontrivial,
                   classify=lambda op, r: "%s/threads=%s" % (op.split()[0], op.split()[-1]), timeout=1800)]


def c11_streams(ctx):
    """C11: the int64_t and the int128_t instantiation of S1 / Phi0 / Sigma / S2_trivial on the same arguments (both
    must print the mirror's value), and the int128_t one alone beyond 2^63."""
    rng = ctx.rng
    ops = []
    for x in gen.structured_x(rng, 100, 10 ** 12, 80 if ctx.quick else 1500):
        yd = min(gen.dr_y(rng, x), gen.iroot(3, x) * 30)
        y, z = gen.gourdon_yz(rng, x)
        y = min(y, max(gen.iroot(3, x) * 30, 1))
        z = max(min(z, y * 4), y)
        c, k = gen.get_c(yd), gen.get_k(x)
        t = rng.choice((1, 2, 16))
        for w in ("64", "128"):
            ops += ["S1 %s %d %d %d %d" % (w, x, yd, c, t), "Phi0 %s %d %d %d %d %d" % (w, x, y, z, k, t),
                    "Sigma %s %d %d %d" % (w, x, y, t), "sigma_parts %s %d %d" % (w, x, y),
                    "S2_trivial %s %d %d %d %d %d" % (w, x, yd, x // yd, max(c, 1), t)]
    xs = [2 ** 63 + d for d in (-2, -1)] + [2 ** 63 + rng.randint(0, 10 ** 9), 10 ** 19 + 1, 10 ** 20 + rng.randint(0, 999)]
    if not ctx.quick:
        xs += [10 ** 21 + 3, 10 ** 22, 2 ** 80 + 5, 10 ** 25]
    for x in xs:
        x13 = gen.iroot(3, x)
        y = min(x13 + rng.randint(1, 1000), 3 * 10 ** 6)
        z = y + rng.randint(0, y)
        ws = ("64", "128") if x < 2 ** 63 else ("128",)
        for w in ws:
            ops += ["S1 %s %d %d 8 2" % (w, x, y), "Phi0 %s %d %d %d 8 2" % (w, x, y, z),
                    "s1thread %s %d %d 8 1 9 23" % (w, x, y), "phi0thread %s %d %d %d 8 -1 12 %d" % (w, x, y, z, 37 * 41)]
    return [Stream("leafloops_wide_vs_narrow", ops, oracle=True, model_ops=_rename(LOOP), nontrivial=_nontrivial,
                   classify=_classify, timeout=1800)]
