"""C13 / C20 (WP cli) — whole command lines on the real `primecount` executable against the L2 model of
src/app/CmdOptions.cpp + main.cpp (`Pc.Cli.cliMain`, lean/PcModel/Cli.lean; theorems in PcProps/C13Cli.lean, C20Cli.lean).

Stream `cliargv`: argv lists (options in any order; `--opt=value`, attached `-t4`, separate `-t 4` values; repeated and
unknown options; `-`/`--`/empty-string oddities; numbers as expressions, as `--number=…`, `--number …`, `--number5`; 64-bit
options at +-2^63 and 2^64 wrap candidates; `--phi` with 1/2/3 numbers; `--help`/`--version` at any position; two main options).
  real side : harness op `cliexec` runs <build>/primecount with exactly that argv -> exit status, stderr message class, stdout;
              harness op `clicall` computes the value `fn(x[, a])` of the library function IN-PROCESS (the formula wrappers of
              main.cpp: the canonical command line `primecount <x> --<formula> [alpha options]`)
  model side: pcdrv op `cliargv` -> exit status + message class + HELP/VERSION, or the call main makes (`CALL fn= x= a= ...`)
  judge     : exit status, message class and stdout must be what the model says; for a CALL the stdout must be
              `[status output] <fn(x[,a])> [Seconds: t]` exactly as `printResult` composes it.
A command line is executed only when the model says it ends quickly (error / help / small numbers / beyond the library limit);
the others are counted as BIG.
"""
from ..runner import Stream, emit_violation

RULE = ("cliargv: seeded argv lists from a structured generator (1-2 numbers in 4 spellings x 0-2 main options out of all 46 main keys "
        "x 0-3 setting options in =/attached/separate form x junk/unknown/help/version tokens, shuffled) + fixed boundary "
        "cases; distinct = distinct argv; classes = outcome kinds of the model")
TRUSTED = [
    "L2 model PcModel/Cli.lean mirrors parseOption / parseOptions / setMainOption / optionStatus / Option::to / main by hand; "
    "option table, OptionID enum, both switches and the remaining statements are regenerated from the sources "
    "(translator/extract_cli.py -> PcGen/CliOptData.lean) and kernel-checked equal to the model's (PcGen/CliOptObl.lean); "
    "behaviour tied by the stream cliargv (exit status, stderr message class, stdout)",
    "std::stod is a parameter of the model (theorems quantify over it); the driver instantiates it for the decimal spellings "
    "the stream generates (multiples of 1/8, so that truncate3 is exact)",
    "harness op clicall calls the library functions of main's switch in-process with threads = 1 (C03: value independent of "
    "threads); the ten formula wrappers are referenced through their canonical command line (tied to definitions by C08 cli_terms)",
    "`(int) maxint_t` in Option::to<int> is modular (GCC/Clang; only thread count and status precision pass through it)",
]
ASSUMPTIONS = ["argv strings up to 60 bytes, at most 9 arguments in the stream; the theorems hold for all argv",
               "values handed to a computing function in the stream are <= 2*10^6 (nth_prime: 10^5) or beyond the library limit"]

PI64 = ["-l", "--legendre", "--lehmer", "--lmo", "--lmo1", "--lmo2", "--lmo3", "--lmo4", "--lmo5", "-m", "--meissel", "-p",
        "--primesieve", "--gourdon-64", "--deleglise-rivat-64"]
PI128 = ["-d", "--deleglise-rivat", "-g", "--gourdon", "--deleglise-rivat-128", "--gourdon-128"]
APPROX = ["--Li", "--Li-inverse", "-R", "--RiemannR", "--RiemannR-inverse"]
FORMULA = ["--P2", "--S1", "--S2-easy", "--S2-hard", "--S2-trivial", "--AC", "-B", "--B", "-D", "--D", "--Phi0", "--Sigma"]
NTH = ["-n", "--nth-prime"]
MAIN = PI64 + PI128 + APPROX + FORMULA + NTH + ["--phi"]
JUNK = ["--foo", "-x", "--legendree", "-", "--", "---l", "--=5", "-=", "", "abc", "-5", "--5", "- 5", "-(5)", "--lmo7", "-l5",
        "--legendre=3", "--nth-prime=100", "-n100", "--P23", "--Phi01", "--S2-hard7", "--lmo12", "--gourdon-6", "--Li5",
        "--time=1", "--time5", "-t", "--threads", "-a", "--alpha", "--number", "--number=", "-s=", "--status=", "-s=x",
        "--alpha=", "--alpha=abc", "-a.5", "-a=.5", "--alpha-y=1e", "-t=abc", "-tx", "-t1x", "--threads=1/0", "--help=1",
        "-h5", "-v=", "--number=abc", "--number=-", "e5", "1e", "5x", "=5", "+5", " 5", "5 ", "1 2", "(5", "1/0", "1e40",
        "2**127", "--phi=3", "--phi3", "--Sigma=", "-B1", "--D=0", "--S1=", "--AC-", "-ll", "-lm", "--l", "-Z", "--Z9"]


def hexs(s):
    b = s.encode("latin-1") if isinstance(s, str) else s
    return b.hex() if b else "-"


class Gen:
    def __init__(self, rng):
        self.r = rng

    def value(self, kind):
        r = self.r
        if kind == "nth":
            return r.choice([0, 1, 2, 3, 10, 100, 168, 1000, r.randint(1, 20000), -1, -5])
        if kind == "phi_a":
            return r.choice([0, 1, 2, 3, 4, 5, 6, 7, 8, 9, 10, 25, 100, 168, 5000, -1, r.randint(0, 50)])
        k = r.random()
        if k < 0.55:
            return r.choice([0, 1, 2, 3, 4, 10, 11, 100, 1000, 1009, r.randint(0, 3000), r.randint(0, 10 ** 5), r.randint(0, 2 * 10 ** 6)])
        if k < 0.65:
            return -r.choice([1, 2, 5, 100, 2 ** 62, 2 ** 63 - 1])
        if k < 0.90:
            base = r.choice([2 ** 63, 2 ** 64, 2 ** 64, 2 ** 65, 2 ** 127 - 200])
            d = r.choice([-100, -1, 0, 1, 25, 100, 1000, r.randint(2, 5000)])
            return r.choice([base + d, -(base + d), -(base - d)])
        return r.choice([10 ** 31 + 1, 10 ** 31 + 10 ** 6, 2 ** 126 + 7, 10 ** 32])

    def spell(self, v):
        r = self.r
        k = r.random()
        if v >= 0:
            if k < 0.55:
                return str(v)
            if k < 0.65:
                return "0x%x" % v
            if k < 0.75 and v >= 7:
                return "%d+%d" % (v - 7, 7)
            if k < 0.82 and v % 10 == 0 and v > 0:
                e = len(str(v)) - len(str(v).rstrip("0"))
                return "%de%d" % (v // 10 ** e, e)
            if k < 0.88:
                return "(%d)" % v
            if k < 0.94:
                return "00%d" % v
            return "%d*1" % v
        a = -v
        return ("0-%d" % a) if k < 0.5 else ("(0-%d)" % a if k < 0.75 else "1-%d" % (a + 1))

    def number_tokens(self, v, allow_neg_literal=True):
        """one number as 1 or 2 argv elements"""
        r = self.r
        s = self.spell(v)
        k = r.random()
        if v < 0 and allow_neg_literal and k < 0.25:
            return r.choice([["--number=%d" % v], ["--number", str(v)]])
        if k < 0.70:
            return [s]
        if k < 0.82:
            return ["--number=" + s]
        if k < 0.92:
            return ["--number", s]
        return ["--number" + s] if s[0].isdigit() else [s]

    def setting(self):
        r = self.r
        k = r.random()
        if k < 0.30:
            t = r.choice(["1", "2", "4", "3", "0", "16", "64", "1000", "2**31", "2**32+1", "0-1", "1e3", "7/2", "0x2"])
            return r.choice([["-t" + t] if t[0].isdigit() else ["-t", t], ["-t", t], ["--threads=" + t], ["--threads", t], ["-t=" + t]])
        if k < 0.42:
            return [r.choice(["--time", "--time", "--time=", "--time7"])]
        if k < 0.62:
            p = r.choice(["", "", "0", "1", "3", "5", "9", "2**32", "0-1"])
            if not p:
                return [r.choice(["-s", "--status"])]
            return r.choice([["-s" + p] if p[0].isdigit() else ["-s=" + p], ["--status=" + p], ["-s", p], ["--status", p], ["-s=" + p]])
        a = r.choice(["1", "1.5", "2", "2.25", "3.125", "0.5", "0", "4", "1.000", "2.", "02", "8", "1.5x", "+2", " 2", "inf", "nan", "-1"])
        o = r.choice(["-a", "--alpha", "--alpha-y", "--alpha-z"])
        k2 = r.random()
        if k2 < 0.5:
            return [o + "=" + a]
        if k2 < 0.8:
            return [o, a]
        return [o + a] if a[0].isdigit() else [o + "=" + a]

    def argv(self):
        r = self.r
        parts = []      # list of token groups (kept together when shuffling)
        k = r.random()
        nmain = 0 if k < 0.25 else (1 if k < 0.93 else 2)
        mains = [r.choice(MAIN) for _ in range(nmain)]
        kind = "pi"
        if mains:
            m = mains[0]
            kind = "nth" if m in NTH else ("phi" if m == "--phi" else ("f" if m in FORMULA else "pi"))
        nn = 1
        k = r.random()
        if kind == "phi":
            nn = 2 if k < 0.7 else (1 if k < 0.85 else 3)
        elif k < 0.06:
            nn = 0
        elif k < 0.12:
            nn = 2
        nums = []
        for i in range(nn):
            if kind == "nth":
                v = self.value("nth") if r.random() < 0.8 else self.value("x")
            elif kind == "phi" and i == 1:
                v = self.value("phi_a") if r.random() < 0.8 else self.value("x")
            elif kind == "phi":
                v = r.choice([0, 1, 10, 100, 1000, r.randint(0, 10 ** 5), self.value("x")])
            elif kind == "f":
                v = r.choice([0, 1, 2, 10, 100, 1000, 10 ** 4, r.randint(1, 10 ** 6), 10 ** 6, 3 * 10 ** 6, -3, self.value("x")])
            else:
                v = self.value("x")
            nums.append(self.number_tokens(v))
        for m in mains:
            if r.random() < 0.06:
                m = m + r.choice(["=", "=1", "7"])
            parts.append([m])
        for _ in range(r.choice([0, 0, 1, 1, 2, 3])):
            parts.append(self.setting())
        if r.random() < 0.14:
            parts.append([r.choice(JUNK)])
        if r.random() < 0.05:
            parts.append([r.choice(["--help", "-h", "--version", "-v"])])
        r.shuffle(parts)
        # numbers keep their relative order (x before a) but are spread over the command line
        pos = sorted(r.randint(0, len(parts)) for _ in nums)
        out, j = [], 0
        for i in range(len(parts) + 1):
            while j < len(nums) and pos[j] == i:
                out += nums[j]
                j += 1
            if i < len(parts):
                out += parts[i]
        if r.random() < 0.04 and out:
            # break a group: drop one element (a separated value may now be taken for a number, an option may lose its value)
            del out[r.randrange(len(out))]
        return out


FIXED = [
    [], ["100"], ["1e5"], ["100", "200"], ["100", "200", "300"], ["--phi", "100", "3"], ["100", "--phi", "3"], ["100", "3", "--phi"],
    ["--phi", "100"], ["--phi"], ["--phi", "100", "3", "7"], ["3", "100", "--phi"], ["-s", "1000"], ["1000", "-s"], ["-s", "5", "1000"],
    ["--phi", "100", "-s", "3"], ["--status", "--phi", "100", "3"], ["1000", "--status=3", "--time"], ["1000", "-s3"],
    ["--legendre", "--meissel", "100"], ["-l", "-l", "100"], ["100", "-l", "--help"], ["--help", "--bogus"], ["--bogus", "--help"],
    ["-v", "1/0"], ["1/0", "-v"], ["100", "--help"], ["--version"], ["-h"], ["100", "-t"], ["-t", "100"], ["-t", "4", "100"],
    ["-t", "-l", "100"], ["-t", "", "100"], ["", "100"], ["100", ""], ["-a", "2", "100"], ["-a", "100"], ["--alpha=2", "--alpha=3", "1000", "--P2"],
    ["1000", "--P2", "-s"], ["0", "--P2", "-s"], ["0-5", "--Sigma", "-s"], ["1000", "--AC", "--status=2"], ["--number", "-5"],
    ["--number=-5"], ["-5"], ["--number", "--legendre"], ["--number"], ["--number=1e3"], ["--number1000"], ["--number", "1000", "-l"],
    ["9223372036854775807", "-l", "--help"], ["9223372036854775808", "-l"], ["0-9223372036854775808", "-l"],
    ["0-9223372036854775809", "-l"], ["0-18446744073709551516", "--legendre"], ["100", "18446744073709551619", "--phi"],
    ["0-18446744073709551516", "--nth-prime"], ["2**64+100", "-m"], ["2**64+100"], ["2**128+100"], ["1e31+1"], ["1e31+1", "-g"],
    ["1e31+1", "--Li"], ["100", "--lmo6"], ["100", "--lmo17"], ["100", "--lmo=3"], ["10", "--nth-prime=100"], ["-n100", "5"],
    ["100", "-t4294967297"], ["100", "--threads=2**32+1"], ["100", "-t", "2**127"], ["100", "-t1e40"], ["100", "-s", "--time", "--time"],
    ["100", "--deleglise-rivat-128"], ["100", "--gourdon-128"], ["100", "--gourdon-64"], ["100", "-g5"], ["--Li", "1e20"], ["--Li-inverse", "1e18"],
    ["-R", "1e10"], ["--RiemannR-inverse", "1e12"], ["100", "--alpha-y=2", "--alpha-z=1.5", "--Phi0"], ["100", "--", "-l"], ["100", "-"],
]


def build(ctx):
    g = Gen(ctx.rng)
    n = 2500 if ctx.quick else 40000
    argvs = [list(a) for a in FIXED]
    for _ in range(n):
        a = g.argv()
        if len(a) <= 9 and all(len(t) <= 60 and "\x00" not in t for t in a):
            argvs.append(a)
    seen, uniq = set(), []
    for a in argvs:
        t = tuple(a)
        if t not in seen:
            seen.add(t)
            uniq.append(a)
    return uniq


LIMIT = {"nth_prime": 10 ** 5, "phi": 10 ** 6}
# pi(maxint_t) tests x against 10^31 first; the _128 functions only against get_max_x(alpha) (~ 10^31 * alpha^1.5)
WIDE_THROW = ("pi",)
FORMULA_FN = ("P2", "S1", "S2_trivial", "S2_easy", "S2_hard", "AC", "B", "D", "Phi0", "Sigma")
APPROX_FN = ("Li", "Li_inverse", "RiemannR", "RiemannR_inverse")


def parse_call(m):
    d = dict(kv.split("=", 1) for kv in m.split()[1:])
    d["x"] = int(d["x"])
    return d


def runnable(d):
    fn, x = d["fn"], d["x"]
    if fn in APPROX_FN:
        return True
    if x <= LIMIT.get(fn, 3 * 10 ** 6 if fn in FORMULA_FN else 2 * 10 ** 6):
        return d["a"] == "-" or abs(int(d["a"])) < 2 ** 62
    return fn in WIDE_THROW and x > 10 ** 31


def streams(ctx):
    import re
    from .. import core
    tinfo = ctx.res.extra.get("translator", {}).get("extract_cli", {})
    if "extractor_shape_changed" in tinfo:
        emit_violation(ctx, "translator", "extract_cli.py no longer recognises src/app: " + tinfo["extractor_shape_changed"],
                       dict(failing_input=None, broken="translator/extract_cli.py (option table / switch shape)"))
    argvs = build(ctx)
    mops = ["cliargv" + "".join(" " + hexs(t) for t in a) for a in argvs]
    _, model, _, _ = core.run_model("\n".join(mops) + "\n")
    if len(model) != len(mops):
        emit_violation(ctx, "internal", "cliargv: model answered %d of %d ops" % (len(model), len(mops)),
                       dict(failing_input=None, broken="cliargv model op"))
        return []
    ops, back, calls, big = [], [], {}, 0
    for a, mo, m in zip(argvs, mops, model):
        if m.startswith("CALL"):
            d = parse_call(m)
            if not runnable(d):
                big += 1
                continue
            key = "clicall %s %d %s %s %s %s" % (d["fn"], d["x"], d["a"], d["al"], d["ay"], d["az"]) if d["fn"] in FORMULA_FN else \
                  "clicall %s %d %s - - -" % (d["fn"], d["x"], d["a"])
            calls.setdefault(key, None)
        ops.append("cliexec" + mo[len("cliargv"):])
        back.append(a)
    ncli = len(ops)
    callops = list(calls)
    ops += callops
    ctx.res.notes.append("cliargv: %d argv generated, %d executed, %d skipped as BIG (the model says a long computation starts), "
                         "%d distinct library reference calls" % (len(argvs), ncli, big, len(callops)))

    def model_ops(ops_, impl):
        return ["cliargv" + o[len("cliexec"):] if o.startswith("cliexec") else "# " + o for o in ops_]

    SEC = re.compile(r"^Seconds:_\d+\.\d+$")

    def expected(d, ref):
        """-> (rc, err, predicate on the list of stdout lines, description)"""
        pr, tm, formula = d["print"] == "1", d["time"] == "1", d["formula"] == "1"
        if ref.startswith("ERR"):
            return "1", "lib", (lambda L: pr or L == []), "exit 1 (the library function throws)"
        if not pr:
            want = [ref] + (["Seconds"] if tm else [])
            return "0", "-", (lambda L: len(L) == len(want) and L[0] == ref and (not tm or SEC.match(L[1]))), " | ".join(want)
        if formula and d["x"] >= 1:
            def ok(L):
                body = [l for l in L if not SEC.match(l)]
                mm = re.match(r"^.*_=_(-?\d+)$", body[-1]) if body else None
                return bool(mm) and mm.group(1) == ref and not any(re.fullmatch(r"-?\d+", l) for l in body)
            return "0", "-", ok, "<status> | <name> = %s | Seconds (no combined result line)" % ref
        return "0", "-", (lambda L: len(L) >= 2 and SEC.match(L[-1]) and L[-2] == ref), "<status> | %s | Seconds" % ref

    def judge(ops_, impl, mops_, mod):
        ref = {o: r for o, r in zip(ops_[ncli:], impl[ncli:])}
        dis = []
        for i in range(ncli):
            got, m = impl[i], mod[i]
            if got in ("HANG", "CRASH", "SKIPPED"):
                continue
            cmd = "primecount " + " ".join("'%s'" % t for t in back[i])
            g = dict(kv.split("=", 1) for kv in got.split(" ", 2)) if got.startswith("rc=") else {}
            if not m.startswith("CALL"):
                if got != m:
                    # a result line where the model says error / help is a failing input of the property
                    prop = g.get("rc") == "0" and m.startswith("rc=1")
                    dis.append(dict(index=i, op=ops_[i], impl=got, model=m, oracle=prop, cmd=cmd))
                continue
            d = parse_call(m)
            key = "clicall %s %d %s %s %s %s" % (d["fn"], d["x"], d["a"], d["al"], d["ay"], d["az"]) if d["fn"] in FORMULA_FN else \
                  "clicall %s %d %s - - -" % (d["fn"], d["x"], d["a"])
            r = ref.get(key, "?")
            if r in ("?", "HANG", "CRASH", "SKIPPED"):
                continue        # the reference call itself was not answered (the harness died on an earlier op)
            rc, err, ok, desc = expected(d, r)
            L = [] if g.get("out", "-") == "-" else g.get("out", "").split("|")
            if g.get("rc") != rc or g.get("err") != err or not ok(L):
                arg = "%d" % d["x"] + ("" if d["a"] == "-" else ", " + d["a"])
                # exit 0 with another number than fn(x): the property is false for this argv
                prop = g.get("rc") == "0" and not r.startswith("ERR")
                dis.append(dict(index=i, op=ops_[i], impl=got, oracle=prop, cmd=cmd,
                                model="rc=%s err=%s out=%s   [%s(%s) = %s]" % (rc, err, desc, d["fn"], arg, r)))
        return dis

    def classify(o, r):
        if o.startswith("clicall"):
            return "ref:" + o.split()[1]
        p = r.split(" ")
        if len(p) < 3:
            return r[:12]
        out = p[2][4:]
        return p[0] + " " + p[1] + (" " + out if out in ("-", "HELP", "VERSION") else " result")

    return [Stream("cliargv", ops, oracle=False, model_ops=model_ops, judge=judge, classify=classify, timeout=1800, env={"OMP_NUM_THREADS": "2"},
                   nontrivial=lambda o, r: o if o.startswith("cliexec") else None)]
