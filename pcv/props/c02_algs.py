"""C02 (WP lmo) — the simple algorithms against the L2 models of their CONTROL FLOW (lean/PcModel/SimpleAlgs.lean):
pi_legendre, pi_meissel, pi_lehmer (+P3), pi_lmo1..4 and the file-local S2 of pi_lmo2/3/4.cpp.  These are mirror streams
(`oracle=False`): the model side executes the loops of the C++ (segment loop, `next[]`, `phi[]`, Fenwick tree), about which
PcProps/C02Algs.lean proves `= pi(x)`; the oracle comparison of the same functions stays in c02.py."""
from ..runner import Stream
from .. import gen

RULE = ("l2range/l2alg: every x in [-3, 3000] (30000 thorough) + structured x and root transitions to 1e6/1e7 through "
        "pi_legendre/meissel/lehmer/lmo1; l2lmo: the same through pi_lmo2/3/4 under several alpha settings, the float product "
        "y travelling from the implementation to the model; l2S2: the file-local S2 of pi_lmo2/3/4.cpp with explicit (x, y, c), "
        "y over [x13/2, sqrt x]; l2S2seg: the model engine at a DIFFERENT segment size against the real S2; l2P3: P3 with "
        "explicit (x, y, a); distinct = distinct op lines")
TRUSTED = ["model side = L2 control-flow models of PcModel/SimpleAlgs.lean (mirror, not an oracle)",
           "harness/ops_lmo{2,3,4}.cpp compile src/lmo/pi_lmoN.cpp into the harness to reach its file-local S2"]
ASSUMPTIONS = ["S2 ops only with 1 <= y, y*y <= x, 1 <= c <= min(8, pi(y)) (c = 0 only for y = 1); outside: out-of-bounds reads in the real code"]

FIXED = ["legendre", "meissel", "lehmer", "lmo1"]
LMO = ["lmo2", "lmo3", "lmo4"]


def _pi(n):
    ps = gen.primes_upto(max(n, 2))
    import bisect
    return bisect.bisect_right(ps, n)


def _transitions(rng, top, per):
    xs = set()
    for n in (2, 3, 4, 6):
        kmax = gen.iroot(n, top)
        ks = set(range(2, min(kmax, 12) + 1))
        for _ in range(per):
            ks.add(rng.randint(2, max(kmax, 2)))
        for k in ks:
            for d in (-1, 0, 1):
                if 2 <= k ** n + d <= top:
                    xs.add(k ** n + d)
    return sorted(xs)


def streams(ctx):
    rng = ctx.rng
    q = ctx.quick
    # ---- 1. algorithms without float parameter
    ops = []
    top = 3000 if q else 30000
    step = 500
    for name in FIXED:
        lo = -3
        while lo <= top:
            hi = min(lo + step - 1, top)
            ops.append("l2range %s %d %d" % (name, lo, hi))
            lo = hi + 1
    for name, cap in (("legendre", 10 ** 6), ("lmo1", 10 ** 6), ("meissel", 10 ** 7), ("lehmer", 10 ** 7)):
        for x in gen.structured_x(rng, 3000, cap, 25 if q else 400):
            ops.append("l2alg %s %d" % (name, x))
        for x in _transitions(rng, cap, 4 if q else 40):
            ops.append("l2alg %s %d" % (name, x))
    st1 = Stream("l2_fixed", ops, oracle=False, timeout=1800, classify=lambda op, r: op.split()[1])

    # ---- 2. pi_lmo2..4: y = (int64_t)(x13 * alpha) is reported by the implementation and handed to the model
    ops2 = []
    for name in LMO:
        for alpha in (-1, 1000, 1500, 2000, 2718, 3000, 3999):
            if q and alpha in (1500, 2718):
                continue
            lo = -3
            while lo <= top:
                hi = min(lo + step - 1, top)
                ops2.append("l2lmo %s %d %d %d" % (name, alpha, lo, hi))
                lo = hi + 1
        cap = 10 ** 7
        xs = gen.structured_x(rng, 3000, cap, 20 if q else 300) + _transitions(rng, cap, 3 if q else 30)
        for x in xs:
            x16 = max(gen.iroot(6, x), 1)
            for alpha in {-1, 1000, x16 * 1000, rng.randint(1000, x16 * 1000), rng.randint(1000, x16 * 1000 + 2000)}:
                ops2.append("l2lmo %s %d %d %d" % (name, alpha, x, x))

    def mops2(ops_, impl):
        out = []
        for o, r in zip(ops_, impl):
            p = o.split()
            ys = []
            for tok in r.split():
                ys.append(tok.split(":")[0])
            out.append("l2lmo_chk %s %s %s %s" % (p[1], p[3], p[4], " ".join(ys)))
        return out

    def judge_same(ops_, impl, mops, model):
        dis = []
        for i, (o, a, b) in enumerate(zip(ops_, impl, model)):
            if a in ("HANG", "CRASH", "SKIPPED"):
                continue
            if a != b:
                dis.append(dict(index=i, op=o, impl=a[:400], model=b[:400], model_op=mops[i][:400]))
        return dis
    st2 = Stream("l2_lmo_alpha", ops2, oracle=False, model_ops=mops2, judge=judge_same, timeout=1800,
                 classify=lambda op, r: op.split()[1])

    # ---- 3. the file-local S2 functions with explicit parameters
    def s2_cases(n):
        cases = []
        xs = list(range(2, 80)) + gen.structured_x(rng, 80, 10 ** 7, n) + _transitions(rng, 10 ** 7, 3 if q else 20)
        for x in xs:
            x13, sq = gen.iroot(3, x), gen.isqrt(x)
            lo, hi = max(1, x13 // 2), max(1, sq)
            ys = {hi, max(1, x13), min(hi, x13 + 1), rng.randint(lo, hi), rng.randint(lo, hi)}
            for y in sorted(ys):
                if y * y > x:
                    continue
                cmax = min(8, _pi(y))
                cs = {gen.get_c(y)}
                if cmax >= 1:
                    cs.add(rng.randint(1, cmax))
                if cmax >= 1:
                    cs.discard(0)           # c = 0 with pi(y) > 1 is never passed by pi_lmoN (and is UB in pi_lmo4's tree)
                for c in sorted(cs):
                    cases.append((x, y, c))
        return cases
    ops3 = []
    for (x, y, c) in s2_cases(60 if q else 800):
        for v in (2, 3, 4):
            ops3.append("l2S2 %d %d %d %d" % (v, x, y, c))
    st3 = Stream("l2_S2", ops3, oracle=False, timeout=1800, classify=lambda op, r: "lmo" + op.split()[1])

    # ---- 4. segment-size independence: the model engine at another segment size against the real S2
    ops4, segs = [], []
    for (x, y, c) in s2_cases(25 if q else 300):
        if c == 0:
            continue
        limit = x // y
        for v in (3, 4):
            seg = rng.choice((1, 2, 3, 7, max(1, gen.isqrt(limit) - 1), gen.isqrt(limit) + 1, max(1, limit - 1), limit + 5,
                              rng.randint(1, limit + 1)))
            if v == 4:
                # the Fenwick tree needs an even segment size (it keeps the odd numbers only); powers of two in the code
                seg = 2 * max(1, seg // 2) if rng.random() < 0.5 else 2 ** rng.randint(1, max(1, limit.bit_length()))
            ops4.append("l2S2 %d %d %d %d" % (v, x, y, c))
            segs.append(seg)

    def mops4(ops_, impl):
        return ["l2S2seg %s %s" % (o.split(" ", 1)[1], s) for o, s in zip(ops_, segs)]
    st4 = Stream("l2_S2_segsize", ops4, oracle=False, model_ops=mops4, judge=judge_same, timeout=1800)

    # ---- 5. P3 with explicit parameters (a = pi(y))
    ops5 = []
    xs = list(range(2, 200)) + gen.structured_x(rng, 200, 10 ** 8, 60 if q else 800) + _transitions(rng, 10 ** 8, 3 if q else 30)
    for x in xs:
        x13, x14 = gen.iroot(3, x), gen.iroot(4, x)
        for y in sorted({max(1, x14), max(1, x13), max(1, x13 + 1), rng.randint(max(1, x14 if x > 10 ** 4 else 1), max(1, x13))}):
            ops5.append("l2P3 %d %d %d %d" % (x, y, _pi(y), rng.choice((1, 3))))
    st5 = Stream("l2_P3", ops5, oracle=False, timeout=1800)
    return [st1, st2, st3, st4, st5]
