"""C16 — no undefined behaviour or violated internal precondition (partial: see PcProps/C16.lean).
Correspondence side: the op streams of the other properties are replayed (thinned) against the
ASan + UBSan + ENABLE_ASSERT build at several thread settings. A sanitizer report, a failed assertion or a
hang is a disagreement with the safety theorems and at the same time the failing input."""
import importlib
from ..runner import Stream, Ctx

VARIANTS = ["rel", "san"]
EXTRA_MODULES = ["C16Safety"]
EXTRACTORS = ["extract_asserts"]
RULE = ("union of the op streams of C01,C02,C04,C05,C06,C07,C08,C09,C12,C13,C14 (thinned to a per-stream cap) executed on the "
        "-fsanitize=address,undefined,float-cast-overflow -DENABLE_ASSERT build; an op is non-trivial if it reaches library code (all do); "
        "distinct = distinct op lines")
TRUSTED = ["for unmodelled code (primesieve internals, iostream, libdivide) the sanitizer run is validation only",
           "assertion inventory: translator/extract_asserts.py (104 sites; modelled files listed in PcProps/C16.lean)"]
ASSUMPTIONS = ["sizes scaled so that an instrumented run stays within seconds"]
SOURCES = ["c12", "c13", "c14", "c07", "c06", "c01", "c02", "c04", "c08", "c09", "c05", "c17", "c17sieve"]


def generated_obligations():
    return 0


def heavy(op):
    """ops that are too slow under ASan at -O1"""
    p = op.split()
    if p[0] in ("pistr", "pi_cpistr", "cpistr", "pistr_cpp", "pi_cli", "cli", "chist", "history", "history_inproc"):
        # string/CLI entry points evaluate an expression and then COUNT: only tiny literal arguments are cheap
        for t in p[1:]:
            if t in ("-", "NULL") or not all(c in "0123456789abcdefABCDEF" for c in t) or len(t) % 2:
                continue
            try:
                txt = bytes.fromhex(t).decode("latin1")
            except ValueError:
                continue
            if len(txt) > 10 or any(c in txt for c in "eE*^<"):
                return True
        return p[0] in ("chist", "history", "history_inproc", "cli", "pi_cli")
    try:
        nums = [abs(int(t)) for t in p[1:] if t.lstrip("-").isdigit()]
    except ValueError:
        nums = []
    big = max(nums) if nums else 0
    if p[0] in ("alg", "algall", "algalpha_all", "ident_dr", "ident_gourdon", "algrange", "pi_batch", "piwin", "piall",
                "nth", "nth_chk", "cnth", "nth_batch", "phi", "phi_t", "cphi", "phi3", "phi_batch", "pi64", "pi128", "cpi"):
        return big > 10 ** 10
    return False


def streams(ctx):
    out = []
    cap = 250 if ctx.quick else 5000
    for name in SOURCES:
        try:
            mod = importlib.import_module("pcv.props." + name)
        except ImportError:
            continue
        sub = Ctx(ctx.pid + "/" + name, ctx.tier, ctx.seed)
        try:
            # c17sieve's "wild" histories call the internal Sieve object OUTSIDE its declared preconditions on purpose
            # (unaligned sizes, decreasing stops) to compare raw state with the mirror model; on the ENABLE_ASSERT build
            # they trip the ASSERTs by construction and say nothing about inputs the public API accepts: excluded here.
            kw = {"c17sieve": dict(audit=False, wild_histories=False), "c17": dict(sieve_half=False)}.get(name, {})
            sts = mod.streams(sub, **kw)
        except Exception as e:  # a source stream generator that fails is reported, not hidden
            ctx.res.notes.append("stream source %s failed: %r" % (name, e))
            continue
        for st in sts:
            if st.env and any(k.startswith("PRIMECOUNT_VERIF") for k in st.env):
                continue
            pre = getattr(mod, "within_declared_preconditions", lambda o: True)
            ops = [o for o in st.ops if not heavy(o) and pre(o)]
            if len(ops) > cap:
                step = len(ops) / float(cap)
                ops = [ops[int(i * step)] for i in range(cap)]
            if not ops:
                continue
            threads_env = dict(st.env or {})
            threads_env["OMP_NUM_THREADS"] = str(ctx.rng.choice((1, 2, 5, 16)))
            threads_env["ASAN_OPTIONS"] = "detect_leaks=0:abort_on_error=0:print_legend=0"
            threads_env["UBSAN_OPTIONS"] = "print_stacktrace=1:halt_on_error=1"
            out.append(Stream("san:%s:%s" % (name, st.name), ops, oracle=True, variant="san", env=threads_env,
                              model_ops=lambda ops, impl: ["# " + o for o in ops],
                              judge=lambda ops, impl, mops, model: [], timeout=1200,
                              classify=lambda o, r: "ERR" if r.startswith("ERR") else "ok"))
    # regimes that only exist at magnitudes the thinned / size-capped source streams above never reach on the instrumented
    # build: PhiCache with its 16 MiB limit active (x > ~1.2e15, a >= 130), through phi and through the algorithms using it
    big = ["phi_t 2000000000000000 200 16", "phi_t 2000000000000000 199 16", "phi_t 1300000000000000 131 1",
           "phi_t 10000000000000000 250 16", "alg meissel 2000000000000000 16", "alg legendre 1300000000000000 16",
           # 128-bit P2 / B with pi(y) > 2^31.5 (finding F9: the closed form of P2 was multiplied in int64_t) and beyond 2^64
           "wide_bp2 10000000000000000000000 99999960124 16", "wide_bp2 9999999999999999990000 99999998457 1",
           "wide_bp2 18446744073709551616 4294667296 5", "wide_bp2 36893488147419103232 6074000000 2"]
    env = {"OMP_NUM_THREADS": "16", "ASAN_OPTIONS": "detect_leaks=0:abort_on_error=0:print_legend=0",
           "UBSAN_OPTIONS": "print_stacktrace=1:halt_on_error=1", "PCV_OP_TIMEOUT": "900"}
    out.append(Stream("san:large-magnitude", big, oracle=True, variant="san", env=env,
                      model_ops=lambda ops, impl: ["# " + o for o in ops],
                      judge=lambda ops, impl, mops, model: [], timeout=1800,
                      classify=lambda o, r: "ERR" if r.startswith("ERR") else "ok"))
    # the tuning setters take ANY double: the thinned c12 stream above keeps only a few of them, so all of them run here.
    # Needs -fsanitize=float-cast-overflow (not part of -fsanitize=undefined), which the `san` variant enables.
    from .. import params_streams
    out.append(Stream("san:tuning-setters", params_streams.setter_ops(Ctx(ctx.pid + "/setters", ctx.tier, ctx.seed)),
                      oracle=True, variant="san", env=env,
                      model_ops=lambda ops, impl: ["# " + o for o in ops],
                      judge=lambda ops, impl, mops, model: [], timeout=600,
                      classify=lambda o, r: "ERR" if r.startswith("ERR") else "ok"))
    # WP safety: P2.cpp:109 at wide magnitudes (finding F9, fixed in /repo 8cccffb; regression guard, PCV_SAFETY_P2WIDE=0 disables)
    from .. import safety
    out += safety.streams(Ctx(ctx.pid + "/safety", ctx.tier, ctx.seed))
    return out
