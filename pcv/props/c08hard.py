"""C08 / C03 (WP hard) — correspondence streams for the hard-special-leaf engines S2_hard_thread / D_thread
(src/deleglise-rivat/S2_hard.cpp, src/gourdon/D.cpp) and their LoadBalancerS2-driven parallel regions.

Real side: harness/ops_hardloops.cpp calls the file-local `S2_hard_thread` / `D_thread` (compiled from the .cpp files
themselves) on tables built exactly as `S2_hard_default` / `D_default` build them, the real `LoadBalancerS2` object and
the real `S2_hard` / `D` entry points.
Model side (pcdrv, PcModel/Drv/HardLoops.lean), up to THREE answers per op from one table construction:
  * engine : `Pc.Hard.s2HardThread` / `dThread` (PcModel/HardLoops.lean) over the reference sieve;
  * cs     : the same engine over `concreteSieve .portable (.pop64 false)`, the bit-exact model of class Sieve;
  * def    : the DEFINING sum restricted to the chunk window [low, min(low + size*segments, z | x/z)).
A difference real != def is a failing input of the chunk theorem (oracle streams only generate inputs inside its
hypotheses: 1 <= y <= z, z*y <= x (S2_hard, z = x/y), 4 <= c|k, low % 30 == 0, segment_size % 240 == 0, >= 240,
segments >= 1; D: admissible Gourdon parameters x^(1/3) < y <= z < sqrt(x)). A difference engine != def = real would be
a defect of the executable instance of the model (reported without failing input).
"""
import bisect
from ..runner import Stream
from .. import gen

RULE_C08 = ("S2_hard_thread/D_thread: chunk values (single work items, rows of 1-segment chunks, chains with arbitrary "
            "segment counts) for segment sizes 240*{1,2,3} (and larger) against the engine model over the reference AND the "
            "bit-exact Sieve model and against the windowed defining sum: small scope x<=3000 x admissible y x all aligned "
            "windows, medium x to 2e6 (thorough 1e8) with many non-empty chunks, leaf positions placed ON 240t and 240t-1, "
            "low=0, limit clipped by z, early return (min_b>max_b), goto next_segment at the first b, off-curve parameters "
            "(mirror only); whole runs with the real LoadBalancerS2 to 1e11 (thorough 1e13); distinct = distinct op lines")
RULE_C03 = ("S2_hard/D whole runs: the real entry point with 1..16 requested threads AND the real LoadBalancerS2 driven by "
            "its team of simulated workers in seeded return orders / print modes / clocks, every work item evaluated by the "
            "real S2_hard_thread / D_thread; the model replays the recorded history (acceptor + engine per work item + "
            "accumulation) and must give the value of the real entry point, the same for every run of the same (x,y,z,c|k)")
TRUSTED_HARD = ["S2_hard/D engines (WP hard): class Sieve enters the engine model through its counting contract (SieveSpec), "
                "instantiated by the bit-exact model of PcModel/Sieve.lean; FactorTable/FactorTableD, PiTable, phi_vector, "
                "generate_primes are the engine's environment (each has its own model and property: C17)",
                "harness/ops_hardloops.cpp compiles src/deleglise-rivat/S2_hard.cpp and src/gourdon/D.cpp into the harness "
                "(renamed extern entry points) to reach the file-local S2_hard_thread / D_thread (the default Sieve::count "
                "variant; the library's public S2_hard / D dispatch to the AVX512 twin files on CPUs that have VPOPCNT)",
                "the model-side evaluator of phi (hlPhi: Legendre recurrence with the pi cut-off) and of mu/lpf/gpf (plain "
                "sieve) used by the windowed defining sums are tied to primecount::phi / to NT.S2hard, NT.D by op streams, "
                "not by proof"]

_P = gen.primes_upto(3000000)


def _pi(n):
    return bisect.bisect_right(_P, n)


def _p(i):
    return _P[i - 1] if i >= 1 else 0


def x_star(x, y):
    y = max(y, 1)
    xs = max(gen.iroot(4, x), -(-x // (y * y)))
    return max(min(xs, y, gen.isqrt(x // y)), 1)


def s2_class(x, y, z, c, low, segs, size):
    """which path of S2_hard_thread the first segment of this work item takes (python mirror, classification only)"""
    limit = min(low + size * segs, z)
    low1 = max(low, 1)
    if limit <= low:
        return "empty"
    pisq = _pi(gen.isqrt(y))
    maxb = pisq if limit <= y else _pi(min(gen.isqrt(x // low1), gen.isqrt(z), y))
    minb = max(c, _pi(min(z // limit, _p(maxb)))) + 1
    if minb > maxb:
        return "early0"
    p = _p(minb)
    xp = x // p
    if minb <= min(pisq, maxb):
        return "goto1" if p >= min(xp // low1, y) else "loop1"
    l = _pi(min(xp // low1, y, z // p))
    return "goto1" if p >= _p(l) else "loop2"


def d_class(x, y, z, k, low, segs, size):
    xz = x // z
    limit = min(low + size * segs, xz)
    low1 = max(low, 1)
    if limit <= low:
        return "empty"
    xs = x_star(x, y)
    maxb = _pi(min(gen.isqrt(x // low1), gen.isqrt(limit), xs))
    minb = max(k, _pi(min(xz // limit, xs))) + 1
    if minb > maxb:
        return "early0"
    p = _p(minb)
    xp = x // p
    if minb <= min(_pi(gen.isqrt(z)), maxb):
        return "goto1" if p >= min(xp // (p * p), xp // low1, z) else "loop1"
    mm = min(xp // (p * p), xp // low1, y)
    return "goto1" if p >= _p(_pi(mm)) else "loop2"


def _first_item(op):
    """(isD, x, y, z, c, low, segs, size) of the first work item of a chunk / chain / row op"""
    f = op.split()
    isD = f[0].startswith("d_")
    x, y, z, c = int(f[2]), int(f[3]), int(f[4]), int(f[5])
    kind = f[0].split("_")[1]
    if kind == "chunk":
        low, segs, size = int(f[6]), int(f[7]), int(f[8])
    elif kind == "chain":
        size, low, segs = int(f[6]), int(f[7]), int(f[8])
    else:
        low, size, segs = int(f[6]), int(f[7]), 1
    return isD, x, y, z, c, low, segs, size


def _classify(op, res):
    f = op.split()
    if f[0] == "hardphi":
        return "hardphi"
    isD, x, y, z, c, low, segs, size = _first_item(op)
    try:
        path = (d_class if isD else s2_class)(x, y, z, c, low, segs, size)
    except Exception:
        path = "?"
    vals = res.split()
    nz = "nonzero" if any(v not in ("0",) and not v.startswith("ERR") for v in vals) else "zero"
    return "%s/%s/%s/%s/%s" % (f[0], f[1], "low0" if low == 0 else "low>0", path, nz)


def _judged(name, ops, oracle, suffix="_all", timeout=1500, use_def=True):
    """impl vs (engine [, cs], def): pcdrv answers `<engine> | <cs> | <def>` from one table construction"""

    def model_ops(ops_, impl):
        out = []
        for o in ops_:
            a = o.split(" ", 1)
            out.append(o if a[0] == "hardphi" else a[0] + suffix + " " + a[1])
        return out

    def judge(ops_, impl, mops, model):
        dis = []
        for i, o in enumerate(ops_):
            a = impl[i]
            if a in ("HANG", "CRASH", "SKIPPED"):
                continue
            m = model[i] if i < len(model) else "?"
            if m.startswith("ERR:model-bound") or m == "MODEL-CRASH":
                continue
            parts = m.split(" | ")
            dfn = parts[-1] if (len(parts) > 1 and use_def) else None
            engines = parts[:-1] if len(parts) > 1 else parts
            if dfn is not None and a != dfn:
                dis.append(dict(index=i, op=o, impl=a[:300], model="%s   [windowed defining sum; engine model: %s]"
                                % (dfn[:300], " | ".join(engines)[:300])))
            elif any(a != e for e in engines):
                d = dict(index=i, op=o, impl=a[:300],
                         model="engine model answers %s (real code%s: %s)" % (" | ".join(engines)[:300],
                                                                           " and the defining sum" if dfn is not None else "", a[:200]))
                if dfn is not None:
                    d["model_crash"] = True
                dis.append(d)
        return dis
    return Stream(name, ops, oracle=oracle, model_ops=model_ops, judge=judge, timeout=timeout, classify=_classify)


def _fmt(kind, w, x, y, z, c, rest):
    return "%s %s %d %d %d %d %s" % (kind, w, x, y, z, c, " ".join(map(str, rest)))


def _cover_ops(rng, pre, w, x, y, z, c, limit, sizes, max_chunks=240, beyond=False):
    """ops that cover [0, limit) (or a window of it): one row of 1-segment chunks and one chain of random segment counts"""
    ops = []
    size = rng.choice(sizes)
    n = -(-limit // size) + (rng.choice((0, 0, 1)) if beyond else 0)   # off-curve: sometimes one chunk beyond the limit
    t0 = 0
    if n > max_chunks:
        t0 = rng.randint(0, n - max_chunks)
        n = max_chunks
    ops.append(_fmt(pre + "_row", w, x, y, z, c, (t0 * size, size, max(n, 1))))
    size = rng.choice(sizes)
    total = -(-limit // size)
    segs = []
    left = min(total, max_chunks)
    t0 = rng.randint(0, total - left) if total > left else 0
    while left > 0:
        s = min(left, rng.choice((1, 1, 2, 2, 3, 5, 8, 13, left)))
        segs.append(s)
        left -= s
    if segs:
        ops.append(_fmt(pre + "_chain", w, x, y, z, c, [size, t0 * size] + segs))
    return ops


def _ks_for_d(rng, x, y):
    xs = x_star(x, y)
    ks = {gen.get_k(x)}
    for k in (4, 5, 6):
        if k <= _pi(xs):
            ks.add(k)
    return sorted(k for k in ks if k >= 4)


def exhaustive_ops(ctx):
    rng = ctx.rng
    q = ctx.quick
    ops = []
    sizes = (240, 480, 720)
    # (a) small scope: x <= 3000 (the only leaves there: b >= 5, two primes 11 <= p_b < l, p_b * l <= z), admissible y >= 7
    xs = rng.sample(range(1800, 3001), 60 if q else 600) + rng.sample(range(200, 1800), 10 if q else 100)
    for x in xs:
        x13, sq = gen.iroot(3, x), gen.isqrt(x)
        ys = [y for y in range(max(7, x13), sq + 1)]
        if q:
            ys = rng.sample(ys, min(4, len(ys)))
        for y in ys:
            z = x // y
            cs = sorted({gen.get_c(y)} | {c for c in (4, 5) if c <= _pi(y)})
            cs = [c for c in cs if c >= 4]
            for c in (cs if not q else cs[:1] + cs[1:][:1]):
                w = rng.choice(("64", "128"))
                for size in sizes:
                    n = -(-z // size)
                    for low_t in range(0, n):
                        for segs in range(1, n - low_t + 2):
                            if q and rng.random() < 0.5:
                                continue
                            ops.append(_fmt("s2hard_chunk", w, x, y, z, c, (low_t * size, segs, size)))
        # D: admissible (y, z) of this x, k = get_k(x) / 4..6 where the b range allows it
        for _ in range(1 if q else 4):
            y, z = gen.gourdon_yz(rng, x)
            if not (1 <= y <= z <= x and gen.isqrt(z) <= y):
                continue
            for k in _ks_for_d(rng, x, y):
                w = rng.choice(("64", "128"))
                xz = x // z
                size = rng.choice(sizes)
                n = -(-xz // size)
                ops.append(_fmt("d_row", w, x, y, z, k, (0, size, n)))
                ops.append(_fmt("d_chunk", w, x, y, z, k, (0, n, size)))
    # (b) medium x, small y: most chunks hold leaves
    hi = 2 * 10 ** 6 if q else 10 ** 8
    for x in gen.structured_x(rng, 2 * 10 ** 4, hi, 110 if q else 900):
        w = rng.choice(("64", "128"))
        y = gen.dr_y(rng, x, 0.3)
        y = max(y, 7)
        z = x // y
        if z * y <= x and y <= z:
            c = rng.choice((gen.get_c(y), gen.get_c(y), rng.randint(4, max(4, min(_pi(gen.isqrt(y)) + 2, 12)))))
            c = max(c, 4)
            ops += _cover_ops(rng, "s2hard", w, x, y, z, c, z, sizes)
        gy, gz = gen.gourdon_yz(rng, x, 0.3)
        if 1 <= gy <= gz <= x and gen.isqrt(gz) <= gy:
            for k in rng.sample(_ks_for_d(rng, x, gy), 1) if _ks_for_d(rng, x, gy) else []:
                ops += _cover_ops(rng, "d", w, x, gy, gz, k, x // gz, sizes)
    # (c) the phi evaluator of the model side against primecount::phi
    for _ in range(60 if q else 600):
        ops.append("hardphi %d %d" % (rng.randint(0, 3000), rng.randint(0, 40)))
    for x in gen.structured_x(rng, 3000, 10 ** 11, 40 if q else 400):
        ops.append("hardphi %d %d" % (x, rng.choice((rng.randint(0, 12), rng.randint(0, 400), _pi(gen.isqrt(x)) % 3000))))
    return ops


def _leaf_candidates(y, c, kind, rng, count):
    """(p_b, m) pairs that are hard leaves for this y: kind 1 = square-free m with lpf(m) > p_b (b <= pi(sqrt y)),
    kind 2 = m prime > p_b (b > pi(sqrt y))"""
    out = []
    pisq = _pi(gen.isqrt(y))
    for _ in range(count * 20):
        if len(out) >= count:
            break
        if kind == 1:
            if pisq <= c:
                break
            b = rng.randint(c + 1, pisq)
            p = _p(b)
            m = rng.randint(y // p + 1, y)
            # square-free with all prime factors > p ?
            n, d, ok = m, 2, True
            while d * d <= n and ok:
                if n % d == 0:
                    n //= d
                    if d <= p or n % d == 0:
                        ok = False
                else:
                    d += 1
            if ok and 1 < n <= p:
                ok = False
            if ok and m > 1:
                out.append((p, m))
        else:
            lo = max(c, pisq) + 1
            hi_b = _pi(y)
            if lo >= hi_b:
                break
            b = rng.randint(lo, hi_b - 1)
            p = _p(b)
            l = _p(rng.randint(b + 1, hi_b))
            out.append((p, l))
    return out


def boundary_ops(ctx):
    """x chosen so that a leaf position x/(p*m) is exactly 240*t or 240*t - 1 (the last number of a segment); the chunks
    around that boundary as separate work items and as one work item with the boundary inside"""
    rng = ctx.rng
    q = ctx.quick
    ops = []
    n = 50 if q else 600
    tries = 0
    while len(ops) < 4 * n and tries < 40 * n:
        tries += 1
        y = rng.choice((rng.randint(130, 400), rng.randint(130, 3000), rng.randint(13, 130)))
        c = max(4, rng.choice((gen.get_c(y), gen.get_c(y), 4, 5, 6)))
        kind = rng.choice((1, 2))
        cand = _leaf_candidates(y, c, kind, rng, 1)
        if not cand:
            continue
        p, m = cand[0]
        pm = p * m
        # y^2 <= x <= y^3 and x = B * pm + r
        tlo, thi = -(-(y * y) // (pm * 240)), (y ** 3) // (pm * 240)
        if thi < max(tlo, 1):
            continue
        t = rng.randint(max(tlo, 1), min(thi, max(tlo, 1) + 400))
        B = 240 * t
        on = rng.choice((0, 1))          # leaf ON the boundary (first number of the next segment) or on B - 1
        base = (B - (1 - on)) * pm
        x = base + rng.choice((0, pm - 1, rng.randint(0, pm - 1)))
        z = x // y
        if not (y <= z and z * y <= x and z > B - 1):
            continue
        if kind == 2 and pm > z:
            continue                      # not a hard leaf (p*l <= z)
        w = rng.choice(("64", "128"))
        size = rng.choice((240, 240, 480, 720))
        lo = (B // size) * size
        if lo == B and lo >= size:
            lo -= size                    # window [lo, lo + 2 size) contains B - 1 and B
        # the two neighbours as two work items, as one work item of two segments, and as a row from 0
        ops.append(_fmt("s2hard_chain", w, x, y, z, c, (size, lo, 1, 1)))
        ops.append(_fmt("s2hard_chunk", w, x, y, z, c, (lo, 2, size)))
        ops.append(_fmt("s2hard_chain", w, x, y, z, c, (240, max(B - 240, 0), 1, 1, 1)))
        if rng.random() < 0.5 and z <= 20000:
            ops.append(_fmt("s2hard_chunk", w, x, y, z, c, (0, -(-z // size), size)))       # low = 0, limit clipped by z
        else:
            tz = (z - 1) // size                                                               # last chunks: limit clipped by z
            ops.append(_fmt("s2hard_chain", w, x, y, z, c, [size, max(tz - 1, 0) * size] + [1] * (2 if tz >= 1 else 1)))
    # D: leaves (p, m) with m <= x / p^3 on a boundary of [0, x/z)
    nd = 0
    tries = 0
    while nd < n and tries < 60 * n:
        tries += 1
        x0 = rng.choice(gen.structured_x(rng, 3 * 10 ** 4, 3 * 10 ** 6 if q else 10 ** 8, 1))
        y, z = gen.gourdon_yz(rng, x0, 0.3)
        if not (1 <= y <= z and gen.isqrt(z) <= y):
            continue
        xs = x_star(x0, y)
        ks = _ks_for_d(rng, x0, y)
        k = rng.choice(ks)
        if _pi(xs) <= k or k < 4:
            continue
        p = _p(rng.randint(k + 1, _pi(xs)))
        mmax = min(z, x0 // (p ** 3))
        if mmax <= z // p:
            continue
        m = rng.randint(z // p + 1, mmax)
        pm = p * m
        pos = x0 // pm
        B = (pos // 240) * 240
        if B == 0:
            continue
        on = rng.choice((0, 1))
        x = (B - (1 - on)) * pm + rng.choice((0, pm - 1))
        # the parameters must stay admissible for the moved x
        if not (gen.iroot(3, x) < y <= z < gen.isqrt(x)):
            continue
        k2 = k if (k >= 4 and k <= _pi(x_star(x, y))) else None
        if k2 is None:
            continue
        w = rng.choice(("64", "128"))
        size = rng.choice((240, 480, 720))
        lo = (B // size) * size
        if lo == B and lo >= size:
            lo -= size
        ops.append(_fmt("d_chain", w, x, y, z, k2, (size, lo, 1, 1)))
        ops.append(_fmt("d_chunk", w, x, y, z, k2, (lo, 2, size)))
        xz = x // z
        tz = (xz - 1) // size
        ops.append(_fmt("d_chain", w, x, y, z, k2, [size, max(tz - 1, 0) * size] + [1] * (2 if tz >= 1 else 1)))
        nd += 1
    return ops


def offcurve_ops(ctx):
    """parameters OUTSIDE the hypotheses of the chunk theorem (y > sqrt(x), z != x/y, z*y > x, D with arbitrary y <= z):
    the engine model must still mirror the real code (defined behaviour only: the harness's domain)"""
    rng = ctx.rng
    q = ctx.quick
    ops = []
    sizes = (240, 480, 720)
    for x in gen.structured_x(rng, 2000, 10 ** 6 if q else 10 ** 7, 90 if q else 700):
        w = rng.choice(("64", "128"))
        sq = gen.isqrt(x)
        y = rng.choice((sq + 1, sq + rng.randint(1, sq), rng.randint(7, sq), max(7, gen.iroot(3, x) // 2)))
        z = rng.choice((x // y + 1, x // y + rng.randint(1, y), max(y, x // y), y, rng.randint(y, max(y, 3 * (x // y)))))
        if z < y:
            z = y
        if z > 3 * 10 ** 5:
            continue
        c = max(4, rng.choice((gen.get_c(y), rng.randint(4, 9))))
        ops += _cover_ops(rng, "s2hard", w, x, y, z, c, z, sizes, 120, True)
        y = rng.randint(max(2, gen.iroot(4, x)), sq)
        z = rng.randint(y, min(max(y, 2 * sq), y * y, x))
        if z > 2 * 10 ** 5 or gen.isqrt(z) > y:
            continue
        xs = x_star(x, y)
        k = rng.choice((4, 5, gen.get_k(x), 8, _pi(xs)))
        if k < 4 and (k < _pi(xs) or xs >= 11):
            continue
        ops += _cover_ops(rng, "d", w, x, y, z, k, x // z, sizes, 120, True)
    return ops


def _run_inputs(rng, lo, hi, n):
    out = []
    for x in gen.structured_x(rng, lo, hi, n):
        y = max(gen.dr_y(rng, x, 0.3), 7)
        # keep DR's y moderate (run time of the real S2_hard grows with alpha)
        y = min(y, gen.iroot(3, x) * 30)
        z = x // y
        if y <= z and z * y <= x:
            out.append(("s2hard", x, y, z, max(gen.get_c(y), 4)))
        gy, gz = gen.gourdon_yz(rng, x, 0.3)
        k = gen.get_k(x)
        if gen.iroot(3, x) < gy <= gz < gen.isqrt(x) and k >= 4:
            out.append(("d", x, gy, gz, k))
    return out


def _run_stream(name, ctx, inputs_small, inputs_big, combos_small, combos_big, extra_terms, replay_limit):
    """ops: groups of runs of the same (kind, x, y, z, c) under several (threads, print, seed); optionally followed by the
    term op `S2_hard` / `D` whose model side is the defining sum NT.S2hard / NT.D"""
    rng = ctx.rng
    ops, groups = [], []
    for big, inputs, combos in ((False, inputs_small, combos_small), (True, inputs_big, combos_big)):
        for (kind, x, y, z, c) in inputs:
            start = len(ops)
            for (t, pr) in combos:
                ops.append("%s_run %s %d %d %d %d %d %d %d 200000" % (kind, rng.choice(("64", "128")), x, y, z, c, t, pr,
                                                                   rng.getrandbits(30)))
            nrun = len(ops) - start
            if extra_terms and x <= 2 * 10 ** 7:
                ops.append("%s 64 %d %d %d %d 0 %d" % ("S2_hard" if kind == "s2hard" else "D", x, y, z, c, rng.choice((1, 3))))
            groups.append((start, nrun, len(ops) - start))

    def replayable(o):
        f = o.split()
        x, z = int(f[2]), int(f[4])
        lim = z if f[0].startswith("s2hard") else x // z
        return lim <= replay_limit

    def model_ops(ops_, impl):
        out = []
        for o, a in zip(ops_, impl):
            f, t = o.split(), a.split()
            if not f[0].endswith("_run"):
                out.append(o)
                continue
            if not t or t[0] != "R" or len(t) < 6 or t[4] != "1" or not replayable(o):
                out.append("# no replay: " + a[:40])
                continue
            out.append("%s_check %s %s %s %s" % (f[0], " ".join(f[1:6]), t[3], f[7], " ".join(t[6:])))
        return [m.rstrip() for m in out]

    def judge(ops_, impl, mops, model):
        dis = []
        for i, (o, a) in enumerate(zip(ops_, impl)):
            if a in ("HANG", "CRASH", "SKIPPED"):
                continue
            m = model[i] if i < len(model) else "?"
            if m.startswith("ERR:model-bound") or m.startswith("#"):
                continue
            if a != m:
                dis.append(dict(index=i, op=o, impl=a[:400], model=m[:400]))
        for (s, nrun, n) in groups:
            vals = set()
            for j in range(s, s + nrun):
                t = impl[j].split()
                if t and t[0] == "R" and len(t) >= 6:
                    vals.add(t[1])
                    if t[4] == "1":
                        vals.add(t[2])          # get_sum() of the complete simulated run
                elif impl[j] not in ("HANG", "CRASH", "SKIPPED"):
                    vals.add(impl[j][:40])
            for j in range(s + nrun, s + n):
                if impl[j] not in ("HANG", "CRASH", "SKIPPED"):
                    vals.add(impl[j])
            if len(vals) > 1:
                dis.append(dict(index=s, op=" ; ".join(ops_[s:s + n])[:900], impl=" ".join(sorted(vals)),
                                model="one value: whole = sum over the work items of every run = the term's defining sum"))
        return dis

    def classify(o, r):
        f, t = o.split(), r.split()
        if not f[0].endswith("_run"):
            return f[0]
        nev = int(t[5]) if len(t) > 5 and t[0] == "R" else 0
        team = t[3] if len(t) > 3 else "?"
        return "%s/%s/team%s/%s/%s" % (f[0], f[1], team, "1ev" if nev <= 2 else "<=20ev" if nev <= 20 else ">20ev",
                                       "replayed" if replayable(o) else "run-consistency-only")
    return Stream(name, ops, oracle=True, model_ops=model_ops, judge=judge, timeout=2400,
                  env={"PCV_OP_TIMEOUT": "120"}, classify=classify)


def _multi_worker_inputs(rng, n):
    """sieve limits just above 2^21 / 3 * 2^20: the real region then runs a team of 2..4 workers (ideal_num_threads with
    thread_threshold 2^20) while the model side can still replay every work item"""
    out = []
    for _ in range(n):
        lim = rng.choice((rng.randint(2 ** 21, 2 ** 21 + 10 ** 5), rng.randint(3 * 2 ** 20, 3 * 2 ** 20 + 3 * 10 ** 5),
                          rng.randint(4 * 2 ** 20, 4 * 2 ** 20 + 2 * 10 ** 5)))
        # S2_hard: z = lim = x / y with x^(1/3) <= y
        y = rng.randint(1300, 2600)
        x = lim * y + rng.randint(0, y - 1)
        if gen.iroot(3, x) <= y and x // y == lim:
            out.append(("s2hard", x, y, lim, 8))
        # D: x / z = lim, x^(1/3) < y <= z < sqrt(x)
        z = rng.randint(lim // 40, lim // 15)
        x = lim * z + rng.randint(0, z - 1)
        x13 = gen.iroot(3, x)
        if x13 + 1 <= z < gen.isqrt(x):
            y = rng.randint(x13 + 1, z)
            out.append(("d", x, y, z, gen.get_k(x)))
    return out


def samples_stream(ctx):
    rng = ctx.rng
    q = ctx.quick
    small = _run_inputs(rng, 10 ** 4, 2 * 10 ** 7, 10 if q else 80) + _run_inputs(rng, 2 * 10 ** 7, 10 ** 9, 4 if q else 40)
    big = _run_inputs(rng, 10 ** 9, 10 ** 11 if q else 10 ** 13, 8 if q else 40)
    return _run_stream("hardloops-samples", ctx, small, big, [(1, 0), (3, 1), (16, 0)], [(2, 0), (16, 1)] if q else
                       [(1, 0), (2, 1), (5, 0), (16, 0)], True, 45 * 10 ** 5 if q else 6 * 10 ** 6)


def streams(ctx):
    return [_judged("hardloops-exhaustive", exhaustive_ops(ctx), True),
            _judged("hardloops-boundary", boundary_ops(ctx), True),
            _judged("hardloops-offcurve", offcurve_ops(ctx), False, use_def=False),
            samples_stream(ctx)]


def c03_streams(ctx):
    rng = ctx.rng
    q = ctx.quick
    small = _run_inputs(rng, 10 ** 5, 10 ** 9, 8 if q else 60)
    big = _run_inputs(rng, 10 ** 9, 10 ** 11 if q else 10 ** 13, 3 if q else 30)
    big += _multi_worker_inputs(rng, 1 if q else 12)
    combos = [(1, 0), (1, 1), (2, 0), (3, 1), (8, 0), (16, 1)]
    return [_run_stream("hardloops-runs", ctx, small, big, combos, combos[1:4] if q else combos, False,
                        45 * 10 ** 5 if q else 6 * 10 ** 6)]
