"""C03 — "the same value for every REQUESTED number of threads": the dispensers and the formula drivers take a different
code path when exactly one thread is requested (LoadBalancerAC: one work item holding ALL segments; LoadBalancerS2: 100
segments per work item from the start; P2 / B: a single chunk list; no `omp parallel` fork at all), and that path is only
reached by the whole formulas at magnitudes where the ranges are long (x >= 1e13 .. 5e15). The test-suite machine runs every
test with all cores, so nothing exercises it. Each term is run through the real command line with --threads=1, 2 and 16;
the printed values must be identical (seeded changes C01-b: a bound hoisted out of AC's segment loop, visible only with one
thread at x >= 5e15; C03-b: S2_hard's per-segment min_b, one thread at x >= 3e13)."""
import os
from ..runner import Stream
from .. import core, gen

RULE = ("terms --AC (x in [5e15, 3e16]), --S2-hard / --S2-easy / -D / --B / --P2 / --Phi0 / --Sigma (x in [5e13, 4e14]) and the "
        "full algorithms -g / -d / --lmo (x in [1e13, 1e14]) through `primecount <x> <term> --threads=t` for t = 1, 2, 16 with "
        "default tuning and with one --alpha-y / --alpha (z) override each; distinct = distinct (term, x, tuning)")
TRUSTED = ["this stream judges the property directly (values under different requested thread counts must coincide); the value "
           "itself is judged by C08 / C01"]
ASSUMPTIONS = ["magnitudes limited by the single-thread run time (<= ~20 s per command)"]


def streams(ctx):
    rng = ctx.rng
    exe = os.path.join(core.ensure_build("rel"), "primecount")
    cases = []      # (term args, x, extra args)
    q = ctx.quick
    for x in [6 * 10 ** 15] + [rng.randint(5 * 10 ** 15, 3 * 10 ** 16) for _ in range(1 if q else 8)]:
        cases.append((["--AC"], x, []))
    cases.append((["--AC"], rng.randint(5 * 10 ** 15, 10 ** 16), ["--alpha-y=%d" % rng.randint(2, 40)]))
    for x in [10 ** 14] + [rng.randint(5 * 10 ** 13, 4 * 10 ** 14) for _ in range(1 if q else 8)]:
        for term in (["--S2-hard"], ["--S2-easy"], ["-D"], ["--B"], ["--P2"]) + (() if q else (["--Phi0"], ["--Sigma"], ["--S1"])):
            cases.append((term, x, []))
    cases.append((["--S2-hard"], rng.randint(5 * 10 ** 13, 2 * 10 ** 14), ["--alpha=%d" % rng.randint(2, 30)]))
    cases.append((["-D"], rng.randint(5 * 10 ** 13, 2 * 10 ** 14), ["--alpha-y=%d" % rng.randint(2, 20), "--alpha-z=1.5"]))
    for x in [rng.randint(10 ** 13, 10 ** 14) for _ in range(1 if q else 6)]:
        for alg in (["-g"], ["-d"], ["--lmo"]):
            cases.append((alg, x, []))
    ops, groups = [], []
    for term, x, extra in cases:
        st = len(ops)
        for t in (1, 2, 16):
            ops.append("clit 120 %s %d %s --threads=%d" % (exe, x, " ".join(term + extra), t))
        groups.append((st, " ".join(term + extra), x))

    def judge(ops_, impl, mops, model):
        dis = []
        for st, term, x in groups:
            vals = impl[st:st + 3]
            good = [v for v in vals if v.startswith("rc=0 res=") and not v.endswith("none")]
            if len(good) != 3 or len(set(good)) != 1:
                # report the thread count whose value deviates from the majority (or the first two)
                ref = max(set(vals), key=vals.count)
                j = next((i for i, v in enumerate(vals) if v != ref), 0)
                dis.append(dict(index=st + j, op=ops_[st + j].split(" ", 3)[3] if False else "primecount %d %s --threads=%s" % (x, term, (1, 2, 16)[j]),
                                impl=vals[j], model="%s (value printed with the other thread counts: %s)" % (ref, " | ".join(vals))))
        return dis

    return [Stream("requested-threads-1-2-16", ops, oracle=True, model_ops=lambda ops_, impl: ["# " + o for o in ops_],
                   judge=judge, timeout=3000, env={"PCV_OP_TIMEOUT": "200"},
                   classify=lambda o, r: o.split()[4] if len(o.split()) > 4 else "?",
                   nontrivial=lambda o, r: o if r.startswith("rc=0") else None)]
