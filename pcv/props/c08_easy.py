"""C08 (wp-easy) — streams of the LOOP MIRRORS of the easy special leaves (lean/PcModel/EasyLoops.lean, EasyAC.lean).

Harness ops: the library's `S2_easy` (ops_alg.cpp; S2_easy_libdivide.cpp in the pinned configuration), S2_easy.cpp's copy
`S2_easy_plain`, the file-local per-level kernels `S2_easy_64` / `S2_easy_128` (`s2easy_b`, harness/ops_easyloops.cpp).
Model ops (lean/PcModel/Drv/EasyLoops.lean): `S2_easy_loop` (libdivide mirror), `S2_easy_plain`, `s2easy_b`.

* `oracle=True` streams only contain inputs that satisfy the hypotheses of PcProps/C08Easy.lean (`s2_easy_loop_op`,
  `s2_easy_loop_eq_executable`, `s2_easy_libdivide_eq_plain`): x < 2^127, 1 <= y, x^(1/3) <= y, x / (z + 1) <= y, z <= x / y —
  there the mirror's answer is a PROVED value of the definition, a disagreement is a failing input of the property.
* `oracle=False` streams go beyond (levels b outside (pi(sqrt y), pi(x^(1/3))], z > x / y where the clustered loop also
  collects leaves that are not easy): the mirror must still reproduce the real code exactly.
Every op keeps x < (y + 1)(z + 1): otherwise the REAL code reads `pi[.]` beyond `PiTable pi(y)` (no check in release).
"""
import bisect

from ..runner import Stream
from .. import gen

RULE = ("S2_easy through the library entry point (libdivide file) and through S2_easy.cpp compiled into the harness, with "
        "EXPLICIT (y, z, c): exhaustive x <= 1500 (thorough 4000) x every y in [x13, sqrt(x)+2] x z in {x/y and every smaller z "
        "with x/(z+1) <= y} x c; the per-level kernels S2_easy_64 / S2_easy_128 for every level b in [1, pi(y)] (clustered "
        "part, sparse part); boundary-heavy samples to 1e12 (perfect powers +-1, y = x13, y = sqrt x, z placed on leaf "
        "products p*q and +-1), both widths, S2_easy_128 forced on small operands; distinct = distinct op lines with x > 100")
TRUSTED = ["model side = L2 control-flow mirrors PcModel/EasyLoops.lean, PROVED equal to Spec.S2_easy / NT.S2easy for all "
           "admissible inputs and every distribution of the parallel iterations (PcProps/C08Easy.lean); libdivide's "
           "branchfree divider is modelled as its specification x / d (d >= 2) and corresponded, not verified",
           "harness/ops_easyloops.cpp compiles S2_easy.cpp and S2_easy_libdivide.cpp into the harness (renamed entry points) to "
           "reach the file-local kernels"]
ASSUMPTIONS = ["S2_easy ops only with 1 <= y, x^(1/3) <= y and x < (y+1)(z+1): outside, the real code reads beyond PiTable pi(y)"]

LOOP = {"S2_easy": "S2_easy_loop", "S2_easy_plain": "S2_easy_plain", "s2easy_b": "s2easy_b"}


def _rename(mapping):
    def f(ops, impl):
        out = []
        for o in ops:
            p = o.split(" ", 1)
            out.append(mapping.get(p[0], p[0]) + (" " + p[1] if len(p) > 1 else ""))
        return out
    return f


def _pi(n):
    return bisect.bisect_right(gen.primes_upto(max(n, 2)), n)


def _x_of(op):
    p = op.split()
    return int(p[3]) if p[0] == "s2easy_b" else int(p[2])


def _nontrivial(op, res):
    return op if _x_of(op) > 100 and res not in ("0", "0 0") else None


def _classify(op, res):
    p = op.split()
    x = _x_of(op)
    size = "x<=4e3" if x <= 4000 else "x<=1e9" if x <= 10 ** 9 else "x<=1e12" if x <= 10 ** 12 else "x>1e12"
    zero = "zero" if res in ("0", "0 0") else "nonzero"
    return "%s/%s/%s/%s" % (p[0], p[1] + ("/" + p[2] if p[0] == "s2easy_b" else ""), size, zero)


def _zmin(x, y):
    """smallest z with x / (z + 1) <= y, i.e. x < (y + 1)(z + 1)"""
    return x // (y + 1)


def small_ops(ctx):
    """exhaustive small scope, inside the theorems' hypotheses"""
    q = ctx.quick
    lib, plain = [], []
    for x in range(1, (1500 if q else 4000) + 1):
        x13, sq = gen.iroot(3, x), gen.isqrt(x)
        for y in range(max(x13, 1), sq + 3):
            z0 = x // y
            cs = sorted({0, _pi(gen.isqrt(y)), _pi(gen.isqrt(y)) + 1, max(_pi(x13) - 1, 0), gen.get_c(y)})
            for z in range(max(_zmin(x, y), 1), z0 + 1):
                for c in cs:
                    lib.append("S2_easy 64 %d %d %d %d 1" % (x, y, z, c))
                    if z == z0 or c == cs[0]:
                        plain.append("S2_easy_plain %s %d %d %d %d 2" % ("128" if (x + c) % 2 else "64", x, y, z, c))
    return lib, plain


def level_ops(ctx):
    """the per-level kernels with every level b (also outside (pi(sqrt y), pi(x13)]) and z beyond x / y"""
    rng = ctx.rng
    ops = []
    for x in range(8, (260 if ctx.quick else 700) + 1):
        x13, sq = gen.iroot(3, x), gen.isqrt(x)
        for y in range(max(x13, 1), sq + 3):
            a = _pi(y)
            z0 = x // y
            for z in sorted({max(_zmin(x, y), 1), z0, z0 + 1, z0 + y, 2 * z0 + 3}):
                if not x < (y + 1) * (z + 1):
                    continue
                for b in range(1, a + 1):
                    ops.append("s2easy_b %s %s %d %d %d %d" % (rng.choice(("64", "128")), rng.choice(("k64", "k128")), x, y, z, b))
    return ops


def _leaf_products(x, y, ps, rng, n):
    """products p*q of two primes p < q <= y with p^3 <= x near the easy/hard boundary x / y"""
    out = []
    z0 = x // max(y, 1)
    for _ in range(n):
        if len(ps) < 2:
            break
        i = rng.randrange(len(ps) - 1)
        p = ps[i]
        if p * p * p > x:
            continue
        # q just above z0 / p
        j = bisect.bisect_right(ps, z0 // p)
        for jj in (j - 1, j, j + 1):
            if i < jj < len(ps):
                out.append(p * ps[jj])
    return out


def sampled_ops(ctx):
    """boundary-heavy samples: root transitions, y at both ends of the DR range, z on leaf products +-1, both widths"""
    rng = ctx.rng
    mirror, levels, wild = [], [], []
    n1 = 220 if ctx.quick else 2000
    for x in gen.structured_x(rng, 1500, 10 ** 9, n1):
        w = rng.choice(("64", "128"))
        t = rng.choice((1, 2, 5, 16))
        y = gen.dr_y(rng, x)
        x13 = gen.iroot(3, x)
        y = max(y, x13, 1)
        ps = [p for p in gen.primes_upto(max(y, 2)) if p <= y]
        a = len(ps)
        z0 = x // y
        zlo = max(_zmin(x, y), 1)
        cand = {z0, zlo, max(z0 - 1, zlo)}
        for pq in _leaf_products(x, y, ps, rng, 3):
            for d in (-1, 0, 1):
                if zlo <= pq + d <= z0:
                    cand.add(pq + d)
        c = rng.choice((gen.get_c(y), gen.get_c(y), rng.randint(0, 8), _pi(gen.isqrt(y)) + rng.randint(0, 3)))
        for z in sorted(cand):
            mirror.append("S2_easy %s %d %d %d %d %d" % (w, x, y, z, c, t))
        mirror.append("S2_easy_plain %s %d %d %d %d %d" % (w, x, y, z0, c, t))
        # levels: inside the proved range (oracle) and anywhere (mirror only)
        lo, hi = max(c, _pi(gen.isqrt(y))) + 1, _pi(x13)
        for _ in range(3):
            if lo <= hi:
                b = rng.choice((lo, hi, rng.randint(lo, hi)))
                levels.append("s2easy_b %s %s %d %d %d %d" % (w, rng.choice(("k64", "k128")), x, y, rng.choice(sorted(cand)), b))
        if a >= 1:
            b = rng.randint(1, a)
            zz = rng.choice((z0, z0 + 1, z0 + rng.randint(0, z0 + 1), 2 * z0 + 5, rng.choice(sorted(cand))))
            if x < (y + 1) * (zz + 1):
                wild.append("s2easy_b %s %s %d %d %d %d" % (w, rng.choice(("k64", "k128")), x, y, zz, b))
                wild.append("S2_easy_plain %s %d %d %d %d %d" % (w, x, y, zz, c, t))
    # larger x: few whole calls (the model walks every leaf), more single levels near pi(x13) where leaves are few
    n2 = 12 if ctx.quick else 120
    for x in gen.structured_x(rng, 10 ** 9, 10 ** 12, n2):
        w = rng.choice(("64", "128"))
        x13 = gen.iroot(3, x)
        y = max(min(gen.dr_y(rng, x, 0.3), x13 * 20), x13)
        z0 = x // y
        if x <= 2 * 10 ** 10:
            mirror.append("S2_easy %s %d %d %d %d %d" % (w, x, y, z0, gen.get_c(y), rng.choice((1, 3, 16))))
        hi = _pi(x13)
        lo = max(_pi(gen.isqrt(y)) + 1, hi - 400)
        for _ in range(4):
            b = rng.randint(lo, hi)
            levels.append("s2easy_b %s %s %d %d %d %d" % (w, rng.choice(("k64", "k128")), x, y, z0, b))
    # beyond 2^63: 128-bit only; single levels close to pi(x13) (the table only has to reach y)
    for x in ((2 ** 63 + rng.randint(0, 10 ** 9), 10 ** 19 + 3) if ctx.quick else
              (2 ** 63 + rng.randint(0, 10 ** 9), 10 ** 19 + 3, 10 ** 20 + rng.randint(0, 999), 2 ** 66 - 1)):
        x13 = gen.iroot(3, x)
        y = x13 + rng.randint(0, 1000)
        hi = _pi(x13)
        for _ in range(2):
            b = hi - rng.randint(0, 300)
            levels.append("s2easy_b 128 %s %d %d %d %d" % (rng.choice(("k64", "k128")), x, y, x // y, b))
    return mirror, levels, wild


# ------------------------------------------------------------------------------------------------ A + C (Gourdon)

AC_LOOP = {"AC": "AC_loop", "AC_plain": "AC_plain", "ac_a_p": "ac_a_p", "ac_a_ld": "ac_a_ld", "ac_c2_p": "ac_c2_p",
           "ac_c2_ld": "ac_c2_ld", "ac_c1": "ac_c1"}


def _xstar(x, y):
    y = max(y, 1)
    xs = max(gen.iroot(4, x), -(-x // (y * y)))
    return max(min(min(xs, y), gen.isqrt(x // y)), 1)


def _ac_x(op):
    p = op.split()
    return int(p[3]) if p[0] in ("ac_a_ld", "ac_c2_ld") else int(p[2])


def _ac_nontrivial(op, res):
    return op if _ac_x(op) > 100 and res != "0" else None


def _ac_classify(op, res):
    p = op.split()
    x = _ac_x(op)
    size = "x<=4e3" if x <= 4000 else "x<=1e8" if x <= 10 ** 8 else "x>1e8"
    return "%s/%s/%s/%s" % (p[0], p[1], size, "zero" if res == "0" else "nonzero")


def _gourdon_all(x):
    """every (y, z) with x13 < y <= z < sqrt(x)"""
    x13, sq = gen.iroot(3, x), gen.isqrt(x)
    return [(y, z) for y in range(x13 + 1, sq) for z in range(y, sq)]


def _seg_ops(rng, w, x, y, z, k, segs, out, every_b=False):
    """per-(segment, b) kernel ops for the levels AC_OpenMP can call them with"""
    xs, x13 = _xstar(x, y), gen.iroot(3, x)
    la, ha = _pi(xs) + 1, _pi(x13)
    lc, hc = max(k, _pi(gen.isqrt(z))) + 1, _pi(xs)
    for (low, high) in segs:
        for (lo, hi, names) in ((la, ha, ("ac_a_p", "ac_a_ld")), (lc, hc, ("ac_c2_p", "ac_c2_ld"))):
            if lo > hi:
                continue
            bs = range(lo, hi + 1) if every_b else {lo, hi, rng.randint(lo, hi)}
            for b in bs:
                out.append("%s %s %d %d %d %d %d %d" % (names[0], w, x, y, z, b, low, high))
                out.append("%s %s %s %d %d %d %d %d %d" % (names[1], w, rng.choice(("k64", "k128")), x, y, z, b, low, high))


def _c1_ops(rng, w, x, y, z, k, out, every_b=False):
    ps = gen.primes_upto(max(y, 2))
    l1, h1 = max(k, _pi(gen.iroot(3, x // z))) + 1, _pi(gen.isqrt(z))
    if l1 > h1:
        return
    for b in (range(l1, h1 + 1) if every_b else {l1, h1, rng.randint(l1, h1)}):
        p = ps[b - 1]
        xp = x // p
        maxm = min(xp // p, z)
        minm = min(max(xp // (p * p), z // p), maxm)
        out.append("ac_c1 %s %d %d %d %d -1 %d 1 %d %d" % (w, x, y, z, b, b, minm, maxm))
        a = _pi(y)
        if a > b:
            i = rng.randint(b + 1, a)
            out.append("ac_c1 %s %d %d %d %d %d %d %d %d %d" % (w, x, y, z, b, rng.choice((1, -1)), i, ps[i - 1], minm,
                                                               rng.choice((maxm, max(maxm - rng.randint(0, 5), 0)))))


def ac_small_ops(ctx):
    rng = ctx.rng
    whole, kern = [], []
    for x in range(30, (1200 if ctx.quick else 4000) + 1):
        kk = gen.get_k(x)
        for (y, z) in _gourdon_all(x):
            for k in sorted({0, kk, max(kk - 1, 0)}):
                whole.append("AC 64 %d %d %d %d 1" % (x, y, z, k))
            whole.append("AC_plain %s %d %d %d %d 2" % ("128" if (x + y) % 2 else "64", x, y, z, kk))
    for x in range(30, (420 if ctx.quick else 1200) + 1):
        sq = gen.isqrt(x)
        for (y, z) in _gourdon_all(x):
            segs = [(0, h) for h in range(1, sq + 2)]
            _seg_ops(rng, rng.choice(("64", "128")), x, y, z, rng.choice((0, gen.get_k(x))), segs, kern, every_b=True)
            _c1_ops(rng, "64", x, y, z, 0, kern, every_b=True)
    return whole, kern


def _leaf_segments(rng, x, y, z, k, n):
    """segments whose `high` lies ON a leaf value x / (p q), +-1, and segments starting at the multiple of 240 below it"""
    xs, x13, sq = _xstar(x, y), gen.iroot(3, x), gen.isqrt(x)
    ps = gen.primes_upto(max(gen.isqrt(x // max(xs, 1)), y, 2))
    segs = [(0, sq), (0, max(sq - 1, 1)), (0, sq + 1)]
    for _ in range(n):
        la, ha = _pi(xs) + 1, _pi(x13)
        lc, hc = max(k, _pi(gen.isqrt(z))) + 1, _pi(xs)
        lo, hi = rng.choice(((la, ha), (lc, hc)))
        if lo > hi or hi > len(ps):
            continue
        p = ps[rng.randint(lo, hi) - 1]
        j0 = bisect.bisect_right(ps, p)
        j1 = bisect.bisect_right(ps, min(gen.isqrt(x // p), y if (lo, hi) == (lc, hc) else 10 ** 18))
        if j0 >= j1:
            continue
        q = ps[rng.randint(j0, j1 - 1)]
        v = x // (p * q)
        low = 240 * (v // 240)
        for d in (-1, 0, 1, 2):
            if v + d > low:
                segs.append((low, v + d))
        if low >= 240:
            segs.append((low - 240 * rng.randint(1, max(low // 240, 1)), low))
            segs.append((low - 240, low + 1))
        segs.append((low, low + 240 * rng.randint(1, 30)))
    return segs


def ac_sampled_ops(ctx):
    rng = ctx.rng
    whole, kern, segvar = [], [], []
    for x in gen.structured_x(rng, 4000, 10 ** 9, 120 if ctx.quick else 1200):
        y, z = gen.gourdon_yz(rng, x)
        kk = gen.get_k(x)
        k = rng.choice((kk, kk, rng.randint(0, kk)))
        w = rng.choice(("64", "128"))
        t = rng.choice((1, 2, 5, 16))
        if x <= 2 * 10 ** 8:
            whole.append("AC %s %d %d %d %d %d" % (w, x, y, z, k, t))
            whole.append("AC_plain %s %d %d %d %d %d" % (w, x, y, z, k, t))
            segvar.append(("AC %s %d %d %d %d %d" % (w, x, y, z, k, t), rng.choice((1, 240, 1000, 7680, gen.isqrt(x)))))
        _seg_ops(rng, w, x, y, z, k, _leaf_segments(rng, x, y, z, k, 3), kern)
        _c1_ops(rng, w, x, y, z, k, kern)
    # real multi-segment runs (sqrt(x) > 7680) and kernels on far segments
    for x in gen.structured_x(rng, 6 * 10 ** 7, 3 * 10 ** 10, 10 if ctx.quick else 80):
        y, z = gen.gourdon_yz(rng, x, 0.3)
        k = gen.get_k(x)
        w = rng.choice(("64", "128"))
        if x <= 3 * 10 ** 9:
            whole.append("AC %s %d %d %d %d %d" % (w, x, y, z, k, rng.choice((1, 3, 16))))
            whole.append("AC_plain %s %d %d %d %d %d" % (w, x, y, z, k, rng.choice((1, 4))))
        _seg_ops(rng, w, x, y, z, k, _leaf_segments(rng, x, y, z, k, 2), kern)
        _c1_ops(rng, w, x, y, z, k, kern)
    # whole runs with an A leaf x / (p q) EXACTLY on a boundary of the real segmentation (first segment size 7680): a `low <=`
    # turned into `low <` loses exactly these leaves (mutation M6 of notes/wp-easy.md)
    ps = [p for p in gen.primes_upto(900) if p > 250]
    for _ in range(6 if ctx.quick else 40):
        kq = rng.randint(1, 3)
        i = rng.randrange(len(ps) - 20)
        p_, q_ = ps[i], ps[i + rng.randint(1, 19)]
        x = 7680 * kq * p_ * q_ + rng.randint(0, p_ * q_ - 1)
        x13, sq = gen.iroot(3, x), gen.isqrt(x)
        if not (6 * 10 ** 7 <= x <= 6 * 10 ** 9) or sq - 1 <= 3 * x13:
            continue
        y = rng.randint(3 * x13, sq - 1)
        z = rng.randint(y, sq - 1)
        w = rng.choice(("64", "128"))
        whole.append("AC %s %d %d %d %d %d" % (w, x, y, z, gen.get_k(x), rng.choice((1, 4))))
        whole.append("AC_plain %s %d %d %d %d 2" % (w, x, y, z, gen.get_k(x)))
    # beyond 2^63: kernels only (the mirror's table has to reach max(z, sqrt(x / x_star)) ~ x^(3/8))
    for x in ((2 ** 63 + rng.randint(0, 10 ** 9),) if ctx.quick else (2 ** 63 + rng.randint(0, 10 ** 9), 10 ** 19 + 3, 2 ** 65 + 1)):
        x13 = gen.iroot(3, x)
        y = x13 + rng.randint(1, 1000)
        z = y + rng.randint(0, 1000)
        kern2 = []
        _seg_ops(rng, "128", x, y, z, 8, _leaf_segments(rng, x, y, z, 8, 2)[3:], kern2)
        kern += kern2[:8]
    # the mirror's table (pcdrv `leafTable`) ends at 6e7: segments beyond it cannot be answered by the model
    kern = [o for o in kern if int(o.split()[-1]) <= 5 * 10 ** 7]
    return whole, kern, segvar


def ac_streams(ctx):
    whole_s, kern_s = ac_small_ops(ctx)
    whole, kern, segvar = ac_sampled_ops(ctx)
    lib_small = [o for o in whole_s if o.startswith("AC ")]
    sts = [
        # the library's AC and AC.cpp against the control-flow mirror (PcModel/EasyAC.lean)
        Stream("easyac_small_mirror", whole_s, oracle=False, model_ops=_rename(AC_LOOP), nontrivial=_ac_nontrivial,
               classify=_ac_classify, timeout=1500),
        # every admissible (y, z, k), not only the default curve, against the defining sums NT.A + NT.C (proved = Spec.A + Spec.C)
        Stream("easyac_small_definitions", lib_small, oracle=True, nontrivial=_ac_nontrivial, classify=_ac_classify, timeout=1500),
        Stream("easyac_kernels", kern_s + kern, oracle=False, model_ops=_rename(AC_LOOP), nontrivial=_ac_nontrivial,
               classify=_ac_classify, timeout=1800),
        Stream("easyac_sampled_mirror", whole, oracle=False, model_ops=_rename(AC_LOOP), nontrivial=_ac_nontrivial,
               classify=_ac_classify, timeout=1800),
        # the same real run against the mirror under ANOTHER segmentation (any chain of segments gives the same value)
        Stream("easyac_segmentations", [o for o, _ in segvar], oracle=False,
               model_ops=lambda ops, impl: ["AC_segs " + o.split(" ", 1)[1].rsplit(" ", 1)[0] + " %d" % s for o, s in segvar],
               nontrivial=_ac_nontrivial, classify=_ac_classify, timeout=1800),
    ]
    return sts


def streams(ctx):
    return s2easy_streams(ctx) + ac_streams(ctx)


def s2easy_streams(ctx):
    lib, plain = small_ops(ctx)
    mirror, levels, wild = sampled_ops(ctx)
    sts = [
        # inside the hypotheses of PcProps/C08Easy.lean: proved values
        Stream("easyloops_small_mirror", lib + plain, oracle=True, model_ops=_rename(LOOP), nontrivial=_nontrivial,
               classify=_classify, timeout=1500),
        # the same library calls against the naive defining sum NT.S2easy (existing model op `S2_easy`)
        Stream("easyloops_small_definitions", lib, oracle=True, nontrivial=_nontrivial, classify=_classify, timeout=1500),
        Stream("easyloops_sampled_mirror", mirror + levels, oracle=True, model_ops=_rename(LOOP), nontrivial=_nontrivial,
               classify=_classify, timeout=1800),
        # arbitrary levels / z beyond x / y: exact mirror, not a proved value
        Stream("easyloops_levels", level_ops(ctx) + wild, oracle=False, model_ops=_rename(LOOP), nontrivial=_nontrivial,
               classify=_classify, timeout=1500),
    ]
    return sts
