"""C02 (WP top) — pi_deleglise_rivat_64/128 and pi_gourdon_64/128 against the L2 model of the COMPOSING functions
(lean/PcModel/TopAlgs.lean) in which every term (P2/B, S1, S2_trivial, S2_easy, S2_hard, Sigma, Phi0, AC, D) is executed by the
model of its real control flow and the parameters are derived in checked arithmetic (PcProps/C02Top.lean proves `= pi(x)`).
Mirror streams (`oracle=False`): the float-derived (y, z) travel from the implementation to the model; the oracle comparison of
the same functions stays in c02.py."""
from ..runner import Stream
from .. import gen

RULE = ("top_dr / top_gourdon: EVERY x in [-3, 3000] (30000 thorough) x both widths x several tuning factors, the root "
        "transitions k^n-1, k^n, k^n+1 (n = 2, 3, 4, 6) and structured x up to 1e7 (DR) / 2e8 (Gourdon) [thorough 1e8 / 1e9]; "
        "the model runs Pc.Top.piDeleglieRivat / piGourdon with the reported y (and z); distinct = distinct op lines")
TRUSTED = ["model side = composition of the L2 loop models (mirror); tables of the driver (NT.build, hlEnv) as in C08's streams",
           "harness/ops_top.cpp recomputes y = (int64_t)(x13 * alpha) and Gourdon's clamps exactly as the functions do"]
ASSUMPTIONS = ["x within each function's type; threads = 1..3 (the value does not depend on it: C03)"]


def _transitions(rng, top, per):
    xs = set()
    for n in (2, 3, 4, 6):
        kmax = gen.iroot(n, top)
        ks = set(range(2, min(kmax, 10) + 1))
        for _ in range(per):
            ks.add(rng.randint(2, max(kmax, 2)))
        for k in ks:
            for d in (-1, 0, 1):
                if 2 <= k ** n + d <= top:
                    xs.add(k ** n + d)
    return sorted(xs)


def _judge(nhead):
    def judge(ops_, impl, mops, model):
        dis = []
        for i, (o, a, b) in enumerate(zip(ops_, impl, model)):
            if a in ("HANG", "CRASH", "SKIPPED"):
                continue
            res = a.split()[-1] if a else a
            if res != b:
                dis.append(dict(index=i, op=o, impl=a[:200], model=b[:200], model_op=mops[i][:200], expected=b[:60], observed=res[:60]))
        return dis
    return judge


def streams(ctx):
    rng = ctx.rng
    q = ctx.quick
    top = 3000 if q else 30000
    # ---- Deleglise-Rivat
    ops = []
    for w in ("64", "128"):
        for alpha in (-1, 1000, 2000, 3500):
            step = 1 if alpha in (-1, 1000) else (3 if q else 1)
            for x in range(-3, top + 1, step):
                ops.append("top_dr %s %d %d %d" % (w, x, alpha, 1))
    cap = 10 ** 7 if q else 10 ** 8
    xs = gen.structured_x(rng, 3000, cap, 40 if q else 600) + _transitions(rng, cap, 4 if q else 40)
    for x in xs:
        x16 = max(gen.iroot(6, x), 1)
        for alpha in sorted({-1, 1000, x16 * 1000, rng.randint(1000, x16 * 1000), rng.randint(1000, x16 * 1000 + 2000)}):
            ops.append("top_dr %s %d %d %d" % (rng.choice(("64", "128")), x, alpha, rng.choice((1, 2, 3))))

    def mops_dr(ops_, impl):
        out = []
        for o, r in zip(ops_, impl):
            p = o.split()
            y = r.split()[0] if r and r[0] != "E" and len(r.split()) == 2 else "0"
            out.append("top_dr_chk %s %s %s %s" % (p[1], p[2], y, p[4]))
        return out
    st1 = Stream("top_dr", ops, oracle=False, model_ops=mops_dr, judge=_judge(1), timeout=1800,
                 classify=lambda op, r: "dr%s/%s" % (op.split()[1], "small" if int(op.split()[2]) <= 3000 else "sampled"))

    # ---- Gourdon
    ops2 = []
    for w in ("64", "128"):
        for (ay, az) in ((-1, -1), (1000, 1000), (2000, 1500), (1300, 3000)):
            step = 1 if ay in (-1, 1000) else (3 if q else 1)
            for x in range(-3, top + 1, step):
                ops2.append("top_gourdon %s %d %d %d %d" % (w, x, ay, az, 1))
    cap2 = 2 * 10 ** 8 if q else 10 ** 9
    xs2 = gen.structured_x(rng, 3000, cap2, 40 if q else 600) + _transitions(rng, cap2, 4 if q else 40)
    for x in xs2:
        x16 = max(gen.iroot(6, x), 1)
        for (ay, az) in sorted({(-1, -1), (1000, 1000), (x16 * 1000, 1000), (rng.randint(1000, x16 * 1000), rng.randint(1000, 3000)),
                                (rng.randint(1000, x16 * 1000 + 2000), -1)}):
            ops2.append("top_gourdon %s %d %d %d %d" % (rng.choice(("64", "128")), x, ay, az, rng.choice((1, 2, 3))))

    def mops_g(ops_, impl):
        out = []
        for o, r in zip(ops_, impl):
            p = o.split()
            f = r.split()
            y, z = (f[0], f[1]) if len(f) == 3 else ("0", "0")
            out.append("top_gourdon_chk %s %s %s %s %s" % (p[1], p[2], y, z, p[5]))
        return out
    st2 = Stream("top_gourdon", ops2, oracle=False, model_ops=mops_g, judge=_judge(2), timeout=1800,
                 classify=lambda op, r: "g%s/%s" % (op.split()[1], "small" if int(op.split()[2]) <= 3000 else "sampled"))
    return [st1, st2]
