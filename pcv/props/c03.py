"""C03 — results do not depend on thread count, interleaving or measured time: DISPENSER / REDUCTION half.

Same tie as C09 (trace acceptor on histories of the REAL balancer objects, see c09.py); the streams here run
the SAME range with many team sizes (1..64), return orders, print modes and duration alphabets and keep only
what C03 is about: every complete history must accumulate exactly f[start, limit) for the additive per-chunk
function of the harness (G(high) - G(low)), whatever the team / order / clock — `dispenser_total`,
`reduction_any_order`, `team_size_irrelevant` of PcProps/C03.lean are the statements for ALL histories.
The per-chunk functions of the real algorithms (`chunk_additive`) and whole pi(x) runs with real threads are
checked by the other half of C03 (not in this file).
"""
from ..runner import Stream
from . import c09

RULE = ("same range handed out under team sizes 1..64 x seeded return orders x print on/off x duration alphabets; "
        "every complete history must sum to f[start,limit) (closed form), model must accept and agree on chunk count, "
        "covered range and sum; distinct = distinct op lines whose history handed out at least 2 chunks")
TRUSTED = c09.TRUSTED + ["omp_set_lock mutual exclusion, OpenMP reduction(+) and std::atomic fetch-add are runtime "
                         "semantics (modelled as: get_work atomic, partial sums added in any order, linearizable counter)"]
ASSUMPTIONS = c09.ASSUMPTIONS + ["per-chunk function additive over adjacent intervals (established for the real "
                                 "per-chunk functions by chunk_additive in the other half of C03)"]

THREADS = (1, 2, 3, 5, 8, 17, 33, 64)


def big(rng, lo, hi):
    b = rng.randint(lo, hi)
    v = rng.randint(1 << (b - 1), 1 << b)
    return v - v % 240 + rng.choice((-1, 0, 1, 7)) if rng.random() < 0.3 else v


def streams(ctx):
    rng = ctx.rng
    nbase = 120 if ctx.quick else 1000
    cap = 4000 if ctx.quick else 8000
    s2, p2, ac = [], [], []
    for _ in range(nbase):
        # ranges small enough that the history completes within the cap for every team size
        limit = big(rng, 12, 44)
        x = min(10 ** 31, max(limit, limit ** rng.choice((2, 3)) + rng.getrandbits(16)))
        zthr = rng.choice((0, limit // 3))
        approx = rng.getrandbits(40)
        for t in THREADS:
            for pr in (0, 1):
                alpha = rng.choice((0, 1, 2, 3))
                s2.append("lbs2 %d %d %d %d %d %d %d %d %d" % (x, limit, approx, t, pr, rng.getrandbits(32), cap, alpha, zthr))
        limit = big(rng, 26, 56)
        x = rng.choice((rng.randint(0, limit), rng.randint(0, limit), rng.randint(0, limit * limit)))
        for t in THREADS:
            for pr in (0, 1):
                p2.append("lbp2 %d %d %d %d %d %d %d %d" % (x, limit, t, pr, rng.getrandbits(32), cap, rng.choice((0, 1, 2, 3)), 0))
        sq = big(rng, 14, 42)
        y = rng.choice((0, c09.isqrt(sq) * 3, sq // 7))
        for t in THREADS:
            for pr in (0, 1):
                ac.append("lbac %d %d %d %d %d %d %d %d" % (sq, y, t, pr, rng.getrandbits(32), cap, rng.choice((0, 1, 2, 3)), 0))
    return [c09.make_stream("lbs2-teams", s2, ctx=ctx), c09.make_stream("lbp2-teams", p2, ctx=ctx),
            c09.make_stream("lbac-teams", ac, ctx=ctx)]


def generated_obligations():
    return 0


search = c09.search
