"""C03 — results do not depend on thread count, interleaving or measured time: DISPENSER / REDUCTION half.

Same tie as C09 (trace acceptor on histories of the REAL balancer objects, see c09.py); the streams here run
the SAME range with many team sizes (1..64), return orders, print modes and duration alphabets and keep only
what C03 is about: every complete history must accumulate exactly f[start, limit) for the additive per-chunk
function of the harness (G(high) - G(low)), whatever the team / order / clock — `dispenser_total`,
`reduction_any_order`, `team_size_irrelevant` of PcProps/C03.lean are the statements for ALL histories.
The per-chunk functions of the real algorithms (`chunk_additive`) and whole pi(x) runs with real threads are
checked by the other half of C03 (not in this file).
"""
from ..runner import Stream
from . import c09, c08leaf, c08hard
from .. import p2loop

# extra property files PcProps/C03Leaf.lean, C03P2.lean are auto-discovered by the runner

RULE = ("same range handed out under team sizes 1..64 x seeded return orders x print on/off x duration alphabets; "
        "every complete history must sum to f[start,limit) (closed form), model must accept and agree on chunk count, "
        "covered range and sum; distinct = distinct op lines whose history handed out at least 2 chunks")
TRUSTED = c09.TRUSTED + ["omp_set_lock mutual exclusion, OpenMP reduction(+) and std::atomic fetch-add are runtime "
                         "semantics (modelled as: get_work atomic, partial sums added in any order, linearizable counter)"]
ASSUMPTIONS = c09.ASSUMPTIONS + ["per-chunk function additive over adjacent intervals (established for the real "
                                 "per-chunk functions by chunk_additive in the other half of C03)"]

RULE += "; " + p2loop.RULE_C03
TRUSTED = TRUSTED + p2loop.TRUSTED_P2B

THREADS = (1, 2, 3, 5, 8, 17, 33, 64)


def big(rng, lo, hi):
    b = rng.randint(lo, hi)
    v = rng.randint(1 << (b - 1), 1 << b)
    return v - v % 240 + rng.choice((-1, 0, 1, 7)) if rng.random() < 0.3 else v


def streams(ctx):
    rng = ctx.rng
    nbase = 120 if ctx.quick else 1000
    cap = 4000 if ctx.quick else 8000
    s2, p2, ac = [], [], []
    for _ in range(nbase):
        # ranges small enough that the history completes within the cap for every team size
        limit = big(rng, 12, 44)
        x = min(10 ** 31, max(limit, limit ** rng.choice((2, 3)) + rng.getrandbits(16)))
        zthr = rng.choice((0, limit // 3))
        approx = rng.getrandbits(40)
        for t in THREADS:
            for pr in (0, 1):
                alpha = rng.choice((0, 1, 2, 3))
                s2.append("lbs2 %d %d %d %d %d %d %d %d %d" % (x, limit, approx, t, pr, rng.getrandbits(32), cap, alpha, zthr))
        limit = big(rng, 26, 56)
        x = rng.choice((rng.randint(0, limit), rng.randint(0, limit), rng.randint(0, limit * limit)))
        for t in THREADS:
            for pr in (0, 1):
                p2.append("lbp2 %d %d %d %d %d %d %d %d" % (x, limit, t, pr, rng.getrandbits(32), cap, rng.choice((0, 1, 2, 3)), 0))
        sq = big(rng, 14, 42)
        y = rng.choice((0, c09.isqrt(sq) * 3, sq // 7))
        for t in THREADS:
            for pr in (0, 1):
                ac.append("lbac %d %d %d %d %d %d %d %d" % (sq, y, t, pr, rng.getrandbits(32), cap, rng.choice((0, 1, 2, 3)), 0))
    return [c09.make_stream("lbs2-teams", s2, ctx=ctx), c09.make_stream("lbp2-teams", p2, ctx=ctx),
            c09.make_stream("lbac-teams", ac, ctx=ctx)] + granted_streams(ctx) + c08leaf.c03_streams(ctx) + p2loop.c03_streams(ctx) + c08hard.c03_streams(ctx)


def granted_streams(ctx):
    """"however many threads the OpenMP runtime actually grants": the same ops, which REQUEST several threads on inputs
    above the parallel-split thresholds (1e7 for the tables, larger x for the algorithms), are run with the runtime
    limited to 1, 2 and 3 threads (OMP_THREAD_LIMIT) and unrestricted; all four runs must print the same line, and
    the unrestricted one is also compared with the model. With fewer granted threads the per-thread chunks of the
    `omp for` table constructors run one after the other, which exposes chunk ranges that overlap or leave gaps."""
    from .. import gen
    rng = ctx.rng
    T = 10 ** 7
    ops = []
    for _ in range(3 if ctx.quick else 25):
        th = rng.choice((2, 3, 4) if ctx.quick else (2, 3, 4, 5, 7))     # quick: tables up to 4.5e7 (model time ~ 8 s per table)
        z = rng.randint(th * T - T + 1, th * T + T // 2)
        ops.append("ftdhash %d %d %d %d" % (rng.randint(1000, 10 ** 6), z, th + rng.choice((0, 1, 9)), rng.choice((16, 32))))
        ops.append("fthash %d %d 32" % (rng.randint(th * T - T + 1, th * T + T // 2), th + rng.choice((0, 3))))
        ops.append("pithash %d %d" % (30720 + rng.randint(th * T - T + 1, th * T + T // 2), th + rng.choice((0, 2))))
    for x in gen.structured_x(rng, 2 * 10 ** 14, 10 ** 15, 3 if ctx.quick else 20):
        sq, x13 = gen.isqrt(x), gen.iroot(3, x)
        z = rng.randint(max(T + 1, x13 + 2), sq - 1)
        y = rng.randint(x13 + 1, min(z, x13 * 30))
        ops.append("ident_gourdon 64 %d %d %d %d 16" % (x, y, z, gen.get_k(x)))
    for x in gen.structured_x(rng, 10 ** 11, 10 ** 13, 4 if ctx.quick else 30):
        ops.append("algagree %d 16 lmo_parallel dr64 gourdon64 pi" % x)
        ops.append("ident_dr 64 %d %d %d 16" % (x, min(gen.dr_y(rng, x, 0.3), gen.iroot(3, x) * 20), 8))
    base = {}

    def judge_for(tag):
        def judge(ops_, impl, mops, model):
            dis = []
            for i, (o, a) in enumerate(zip(ops_, impl)):
                if a in ("HANG", "CRASH", "SKIPPED"):
                    continue
                if tag == "all":
                    base[o] = a
                    m = model[i] if i < len(model) else ""
                    if o.split()[0].endswith("hash") and a != m:
                        dis.append(dict(index=i, op=o, impl=a, model=m))
                    if o.startswith("algagree") and len(set(a.split())) != 1:
                        dis.append(dict(index=i, op=o, impl=a, model="all algorithms equal"))
                elif base.get(o) is not None and base[o] != a:
                    dis.append(dict(index=i, op=o + "   [OMP_THREAD_LIMIT=%s]" % tag, impl=a,
                                    model="%s (value with all requested threads granted)" % base[o],
                                    env={"OMP_THREAD_LIMIT": tag}))
            return dis
        return judge

    def mops_for(tag):
        if tag == "all":
            return lambda ops_, impl: [o if o.split()[0].endswith("hash") else "# " + o for o in ops_]
        return lambda ops_, impl: ["# " + o for o in ops_]
    out = []
    for tag in ("all", "1", "2", "3"):
        env = {"PCV_OP_TIMEOUT": "120"}
        if tag != "all":
            env["OMP_THREAD_LIMIT"] = tag
        out.append(Stream("granted-threads-" + tag, ops, oracle=True, env=env, model_ops=mops_for(tag),
                          judge=judge_for(tag), timeout=3000, classify=lambda o, r: o.split()[0]))
    return out


def generated_obligations():
    return 0


def search(ctx, proof_broken, bad, dis):
    """a value that changes with the number of GRANTED threads is itself the failing input (op + OMP_THREAD_LIMIT);
    everything else (balancer traces, broken proofs) goes to the C09 search"""
    from ..runner import emit_violation
    mine = [d for d in dis if d.get("stream", "").startswith("granted-threads")]
    rest = [d for d in dis if not d.get("stream", "").startswith("granted-threads")]
    for d in mine[:5]:
        emit_violation(ctx, "correspondence",
                       "stream %s: the result depends on how many threads the OpenMP runtime grants" % d["stream"],
                       dict(failing_input=d["op"], expected=d["model"], observed=d["impl"], stream=d["stream"],
                            env=d.get("env"), key="granted:" + d["op"].split("   ")[0].replace(" ", "_"),
                            replay_hint="OMP_THREAD_LIMIT=<n> <cache>/rel/pcharness  <<< '<op>'   vs the same without the limit"))
    # wp-s1phi0: the leaf-loop streams compare with a PROVED value: a disagreement is a failing input
    leaf = [d for d in rest if d.get("stream", "").startswith(("leafloops", "requested-threads"))]
    if leaf:
        from ..runner import default_search
        default_search(ctx, None, [], leaf)
        rest = [d for d in rest if d not in leaf]
    if rest or proof_broken or bad:
        return c09.search(ctx, proof_broken, bad, rest)
    return True
