"""C18 (core half) — the sieving core of the bundled primesieve (Erat / EratSmall / EratMedium / EratBig / PreSieve /
SievingPrimes / PrimeGenerator extraction / CountPrintPrimes counting) against the bit-exact L2 model PcModel/PsCore.lean.

Hooked into C18 by WP iter (`streams += c18core.streams(ctx)`, `EXTRA_MODULES += c18core.EXTRA_MODULES`); it can also be run
on its own as `./check C18Core --tier quick` (pid C18Core -> this module + lean/PcProps/C18Core.lean).

Streams (mirror = `oracle=False`: raw sieve arrays compared bit for bit; spec = `oracle=True`: compared with the PROVED
reference window sieve, a disagreement IS a failing input of C18):
  pscore-small-hex     pssieve x : every (start, stop) of a small scope, whole sieve array in hex (start/stop at byte boundaries +-1)
  pscore-wheeladd      Wheel<30|210>::addSievingPrime at structured (prime, segmentLow, stop) incl. uint64 wrap of prime*quotient
  pscore-presieve      PreSieve::preSieve at structured segmentLow (0..180, buffer periods +-1 byte, 2^32, 2^48, 2^62, 2^64-2^33)
  pscore-sieve         pssieve h : multi-segment runs, sieve sizes (16 = min, 17, 31, 32, 33, 48, 64, 100, 128, 256 KiB), forced L1 sizes,
                       all three classes of sieving primes (small / medium / big), p^2 exactly on a segment boundary
  pscore-seg-explicit  psseg h   : real Erat at 2^32, 2^48, 2^62, 2^63, 2^64-2^33, up to 2^64-1 with explicit sieving numbers
  pscore-count-gen     pscorecount / pscoregen / psgenprev mirror (small exhaustive scopes around 0..60 and the smallPrimes cache end 719/721)
  pscore-spec          pscoregen / pscorecount against the proved reference (oracle)
"""
import math

from ..runner import Stream
from .. import gen

EXTRA_MODULES = ["C18Core"]
EXTRACTORS = ["extract_pswheel"]

RULE = ("sieving core: exhaustive small scope start in [7,131], stop-start in [0,40] + byte-boundary grid to 1000 (hex dumps of the raw "
        "sieve array); seeded structured runs: starts {1e6, 1e9, 2^32, 1e12, 2^40, 2^48, 2^52-..} +- byte remainders, lengths 1..3 "
        "segments (quick) / up to 40 (thorough), sieve sizes {16,17,31,32,33,48,64,100,128,256} KiB, forced L1 {0,16K,20000,32K,48K,64K,1M}; "
        "p^2 on a segment boundary for 12 (thorough 60) primes; explicit-number segments at 2^32..2^64-1; Wheel::addSievingPrime "
        "and PreSieve::preSieve unit ops; distinct = distinct op lines; classes = sieving-prime regimes reached (small/medium/big)")
TRUSTED = [
    "PROVED on the L2 model (PcProps/C18Core.lean): see notes/wp-core.md for the list; table facts come from the 38 generated "
    "obligations PcGen/PsWheelObl.lean + PsPreSieveObl.lean (every extracted table entry = closed formula)",
    "harness/ops_pscore.cpp reads private/protected members of Erat, SievingPrimes, PrimeGenerator, Wheel, CpuInfo via "
    "`#define private public` (layout unchanged) and forces cpuInfo.cacheSizes_[1] (L1 size) to the value of the op",
    "the op `pssieve` drives the real Erat + SievingPrimes with a COPY of the loop of CountPrintPrimes::sieve (the translator "
    "checks that loop's text); `pscorecount` / `pscoregen` run CountPrintPrimes::sieve / PrimeGenerator themselves",
    "abstracted in the model: MemoryPool / Bucket linked lists (arrays), EratMedium's sort by wheel index and the order inside "
    "EratBig's bucket lists (bit clearing commutes), SIMD variants of presieve1/2 and fillNextPrimes (the dispatch selected on "
    "this CPU is what the streams execute), isqrt = floor sqrt (C12), ctz/popcnt instructions",
    "Lean Float multiplication by 0.2 / 2.0 / 3.0 and Float->UInt64 are bit-identical to the C++ double code (threshold "
    "computation in Erat::initAlgorithms only; the theorems quantify over the thresholds)",
]
ASSUMPTIONS = [
    "7 <= start (Erat::init's ASSERT), stop < 2^64, 16 <= sieve size <= 8192 KiB (clamped by every caller)",
    "model-side limits of the streams: isqrt(stop) <= 2^26 (whole runs), at most 4096 segments per op",
]

B = [7, 11, 13, 17, 19, 23, 29, 31]
KBS = [16, 17, 31, 32, 33, 48, 64, 100, 128, 256]
L1S = [0, 16384, 20000, 32768, 49152, 65536, 1 << 20]
U64 = (1 << 64) - 1


def regime(op, res):
    """which classes of sieving primes a pssieve/pscorecount/pscoregen op reaches (python mirror of Erat::initAlgorithms, only used
    to COUNT the input distribution)"""
    t = op.split()
    if t[0] not in ("pssieve", "pscoregen", "pscorecount", "psgenprev"):
        return t[0]
    start, stop, kb, l1raw = int(t[1]), int(t[2]), int(t[3]), int(t[4])
    if stop < 7 or start > stop:
        return "empty"
    sq = math.isqrt(stop)
    l1 = l1raw if 4096 <= l1raw <= (1 << 30) else 32768
    l1 = (min(max(l1, 16384), 8192 << 10) + 7) // 8 * 8
    mx = (kb * 1024 + 7) // 8 * 8
    mn = min(l1, mx)
    ss = sq * 2
    if ss > mn:
        ss -= ss % mn
    ss = min(max(ss, mn), mx)
    ss = (min(max(ss, 16384), 8192 << 10) + 7) // 8 * 8
    small = int(min(l1, ss) * 0.2)
    med = ss * 3
    if sq <= 163:
        return "presieve-only"
    if sq <= small:
        return "small"
    if sq <= med:
        return "small+medium"
    return "small+medium+big"


def streams(ctx):
    rng = ctx.rng
    q = ctx.quick
    out = []

    # ---- 1. small scope, whole sieve array in hex
    ops = []
    top = 131 if q else 400
    for start in range(7, top + 1):
        for d in range(0, 41 if q else 70):
            if q and (start + d) % 3 == 1 and d > 8:
                continue
            ops.append("pssieve %d %d 16 32768 x" % (start, start + d))
    for k in range(0, 34 if q else 200):
        for r1 in (6, 7, 8, 30, 31, 32, 36, 37):
            for r2 in (6, 7, 8, 30, 31, 32, 36, 37, 150, 247):
                a, b = 30 * k + r1, 30 * (k + rng.randint(0, 3)) + r2
                if 7 <= a:
                    ops.append("pssieve %d %d 16 32768 x" % (a, b))
    ops.append("pssieve 8 7 16 0 x")
    ops.append("pssieve 100 99 16 0 h")
    for _ in range(40 if q else 400):
        a = rng.randint(7, 40000)
        ops.append("pssieve %d %d %d %d x" % (a, a + rng.randint(0, 3000), rng.choice(KBS), rng.choice(L1S)))
    out.append(Stream("pscore-small-hex", ops, oracle=False, classify=regime))

    # ---- 2. Wheel::addSievingPrime
    ops = []
    ps = [p for p in gen.primes_upto(70000) if p > 5]
    specials = [7, 11, 13, 163, 167, 173, 65521, 65537, 4294967291, 4294967279, 2147483647, 49, 77, 169, 4294967295 - 4]
    for _ in range(1500 if q else 15000):
        m = rng.choice((30, 210))
        kind = rng.randrange(6)
        p = rng.choice(ps) if kind < 3 else (rng.choice(specials) if kind == 3 else rng.randrange(7, 1 << 32) | 1)
        if kind == 0:
            low = 30 * rng.randint(0, 10 ** 6)
        elif kind == 1:
            low = (p * p // 30 + rng.randint(-3, 3)) * 30
        elif kind == 2:
            low = 30 * rng.randint(0, (1 << 64) // 30 - 1)
        else:
            low = (rng.choice((1 << 32, 1 << 48, 1 << 62, (1 << 64) - (1 << 33), (1 << 64) - 16 - 30 * rng.randint(0, 1000))) // 30) * 30
        low = max(0, min(low, ((1 << 64) - 16) // 30 * 30))
        skind = rng.randrange(4)
        stop = U64 if skind == 0 else min(U64, low + rng.randint(0, 40 * p)) if skind == 1 else min(U64, low + rng.randint(0, 1 << 40)) if skind == 2 else rng.randint(0, U64)
        ops.append("pswheeladd %d %d %d %d" % (m, stop, p, low))
    out.append(Stream("pscore-wheeladd", ops, oracle=False, classify=lambda op, r: "stored" if r != "-" else "not-needed"))

    # ---- 3. PreSieve::preSieve
    ops = []
    periods = [5957, 6479, 6409, 6683, 6751, 7097, 7897, 8201, 8357, 8777, 9017, 8249, 8611, 8881, 9167, 9797]
    for low in (0, 30, 60, 90, 120, 150, 180, 210, 240, 270, 30030, 510510 * 30):
        for size in (8, 9, 16, 100, 1000):
            ops.append("pspresieve %d %d" % (low, size))
    for per in periods:
        for dj in (-2, -1, 0, 1):
            ops.append("pspresieve %d %d" % (max(0, 30 * (per * rng.randint(1, 1000) + dj)), rng.choice((8, 24, 1000, 20000 if not q else 3000))))
    for base in (1 << 32, 1 << 48, 1 << 62, (1 << 64) - (1 << 33), (1 << 64) - 3000):
        for _ in range(3 if q else 20):
            ops.append("pspresieve %d %d" % ((base + rng.randint(-10 ** 6, 0)) // 30 * 30, rng.choice((8, 64, 500, 2000))))
    for _ in range(30 if q else 300):
        ops.append("pspresieve %d %d" % (30 * rng.randint(0, (1 << 64) // 30 - 1), rng.randint(8, 4000)))
    out.append(Stream("pscore-presieve", ops, oracle=False))

    # ---- 4. whole runs, hashes per segment
    ops = []
    bases = [10 ** 6, 10 ** 7, 10 ** 9, 2.5 * 10 ** 9, 1 << 32, 10 ** 10, 10 ** 12, 1 << 40] + ([] if q else [1 << 44, 1 << 48, (1 << 52) - 10 ** 7])
    for b in bases:
        b = int(b)
        for _ in range(2 if q else 8):
            kb = rng.choice(KBS)
            l1 = rng.choice(L1S)
            seglen = kb * 1024 * 30
            start = max(7, b + rng.choice((-31, -30, -7, -1, 0, 1, 6, 7, 8, 29, 30, 31)) + 30 * rng.randint(0, 100))
            nseg = rng.choice((0, 1, 1, 2, 3)) if q else rng.randint(0, 40)
            stop = start + nseg * seglen + rng.choice((0, 1, 5, 6, 7, 8, 29, 30, 31, 36, 37, rng.randint(0, seglen)))
            ops.append("pssieve %d %d %d %d h" % (start, stop, kb, l1))
    # sieve-size regimes at fixed ranges: every size class of sieving primes with the minimum sieve size
    for (a, b) in ((7, 3 * 10 ** 6), (7, 3 * 10 ** 7), (2 * 10 ** 9, 2 * 10 ** 9 + 4 * 10 ** 6), (3 * 10 ** 9, 3 * 10 ** 9 + 2 * 10 ** 6)):
        for kb in ((16, 64) if q else KBS):
            ops.append("pssieve %d %d %d %d h" % (a, b, kb, rng.choice(L1S)))
    # p^2 (and p*(p+2..)) exactly on a segment boundary
    bigps = [p for p in gen.primes_upto(200000) if p > 163]
    for _ in range(12 if q else 60):
        p = rng.choice(bigps)
        kb = rng.choice((16, 17, 32))
        seg = kb * 1024 * 30
        k = rng.randint(0, 2)
        for delta in (7, 7 - 30, 7 + 30, 1 - seg + seg):     # p^2 = bit 0 of byte 0 of segment k / last byte of k-1 / ...
            low0 = p * p - delta - k * seg
            if low0 >= 30 and low0 % 30 == 0:
                ops.append("pssieve %d %d %d 32768 h" % (low0 + 7, p * p + seg + rng.randint(0, 1000), kb))
        ops.append("pssieve %d %d %d 32768 h" % (max(7, p * p - rng.randint(0, 60)), p * p + rng.randint(0, 60), kb))
    out.append(Stream("pscore-sieve", ops, oracle=False, classify=regime, timeout=1800))

    # ---- 5. explicit sieving numbers at huge offsets (no sieving-prime generation needed)
    ops = []
    offs = [1 << 32, 1 << 48, 1 << 62, 1 << 63, (1 << 64) - (1 << 33), (1 << 64) - (1 << 25), (1 << 64) - 10 ** 6, (1 << 64) - 1000]
    cop = [n for n in range(7, 3000) if math.gcd(n, 30) == 1]
    for off in offs:
        for _ in range(3 if q else 25):
            kb = rng.choice((16, 17, 32, 64))
            start = max(7, off + rng.randint(-10 ** 6, 10 ** 5))
            start = min(start, U64 - 1)
            stop = min(U64, start + rng.choice((0, 1, 31, 1000, kb * 1024 * 30 - 1, kb * 1024 * 30 + 7, 2 * kb * 1024 * 30 + rng.randint(0, 10 ** 6), 1 << 40)))
            nums = set(rng.sample(cop, rng.randint(0, 40)))
            for _ in range(rng.randint(0, 25)):
                v = rng.choice((rng.randrange(7, 1 << 16), rng.randrange(1 << 16, 1 << 24), rng.randrange(1 << 24, 1 << 32)))
                if math.gcd(v, 30) == 1:
                    nums.add(v)
            nums |= set(rng.sample([4294967291, 4294967279, 65537, 65521, 2147483647, 16777213], rng.randint(0, 3)))
            ns = ",".join(str(x) for x in sorted(nums)) or "-"
            ops.append("psseg %d %d %d %d %d %s h" % (start, stop, kb, rng.choice(L1S), rng.randint(1, 3), ns))
    out.append(Stream("pscore-seg-explicit", ops, oracle=False))

    # ---- 6. counting / generation mirror
    ops = []
    for a in range(0, 40 if q else 61):
        for b in range(a, 41 if q else 61):
            ops.append("pscoregen %d %d 16 32768 x" % (a, b))
            if (a + b) % 4 == 0:
                ops.append("psgenprev %d %d 16 32768 x" % (a, b))
                ops.append("pscorecount %d %d 16 32768" % (a, b))
    for a in range(700, 731, 1 if not q else 3):
        for b in (a, 718, 719, 720, 721, 722, 726, 727, 733, 760):
            if a <= b:
                ops.append("pscoregen %d %d 16 32768 x" % (a, b))
                ops.append("psgenprev %d %d 16 32768 x" % (a, b))
    for _ in range(20 if q else 150):
        a = int(10 ** rng.uniform(0, 12))
        b = a + int(10 ** rng.uniform(0, 6.3))
        kb, l1 = rng.choice(KBS), rng.choice(L1S)
        ops.append("pscoregen %d %d %d %d h" % (a, b, kb, l1))
        ops.append("psgenprev %d %d %d %d h" % (a, b, kb, l1))
        ops.append("pscorecount %d %d %d %d" % (a, b, kb, l1))
    ops.append("pscorecount 0 %d 64 32768" % (10 ** 7 if q else 10 ** 9))
    ops.append("pscorecount 10 5 16 0")
    out.append(Stream("pscore-count-gen", ops, oracle=False, classify=regime, timeout=1800))

    # ---- 7. against the PROVED reference window sieve (oracle)
    ops = []
    for a in range(0, 12):
        for b in range(a, 35):
            ops.append("pscoregen %d %d 16 32768 x" % (a, b))
    for off in [0, 700, 10 ** 6, 1 << 32, 10 ** 12, 1 << 40] + ([] if q else [1 << 44, 1 << 48]):
        for _ in range(3 if q else 12):
            a = max(0, off + rng.randint(-1000, 10 ** 5))
            b = a + rng.choice((0, 1, 100, rng.randint(0, 10 ** 6), rng.randint(0, 3 * 10 ** 6)))
            kb, l1 = rng.choice(KBS), rng.choice(L1S)
            ops.append("pscoregen %d %d %d %d h" % (a, b, kb, l1))
            ops.append("pscorecount %d %d %d %d" % (a, b, kb, l1))

    def ref_ops(ops_, impl):
        return [o.replace("pscoregen ", "psgenref ", 1).replace("pscorecount ", "pscountref ", 1) for o in ops_]
    # first in the list: when something breaks, its disagreements (failing inputs of the property) are reported first
    out.insert(0, Stream("pscore-spec", ops, oracle=True, model_ops=ref_ops, classify=regime, timeout=1800))
    return out


def search(ctx, proof_broken, bad, disagreements):
    """witness search of the core half: a disagreement of the oracle stream (real code vs PROVED reference sieve) is itself a
    failing input of C18, so those are reported before the mirror disagreements (runner.default_search reports the first five)."""
    from ..runner import default_search
    dis = sorted(disagreements, key=lambda d: 0 if (d.get("oracle") and not d.get("model_crash")) else 1)
    default_search(ctx, proof_broken, bad, dis)
    return True


def generated_obligations():
    import os
    import sys
    from .. import core
    tdir = os.path.join(core.ROOT, "translator")
    if tdir not in sys.path:
        sys.path.insert(0, tdir)
    import extract_pswheel
    return extract_pswheel.count_obligations()
