"""C01 — pi(x) is the exact number of primes <= x on every entry point."""
from ..runner import Stream
from .. import pi_common as pc

RULE = ("(1) EVERY x in [-64, N] (N = 3*10^5 quick, 2*10^6 thorough) through pi64, pi128, cpi (negatives included), "
        "pistr, cpistr, against the proved sieve table (absolute values); CLI on a sample of them; "
        "(2) +-2000 around the dispatcher threshold 10^8 through all five in-process entry points as increments "
        "pi(10^8-2000+d) - pi(10^8-2000) against the proved window sieve (quick: increments only; thorough: also the "
        "absolute checkpoint pi(10^8-2000) from the proved 10^8 sieve); the thresholds 30719 and 10^5 lie inside (1); "
        "(3) structured x <= 10^12 (primes, semiprimes, perfect powers +-1, multiples of 240/2310/510510, 2^k+-3, "
        "log-uniform): all six entry points incl. the CLI must return the same text on x and on x+d, and the "
        "increment is judged against the proved window sieve; (4) error / edge strings (leading zeros, 2^127-1.. "
        "2^127, INT64/INT128 minima). distinct = distinct x above the cache limit 30719 (absolute streams) or "
        "distinct windows containing a prime (increment streams).")
TRUSTED = ["routes of the dispatcher are PARAMETERS of the L2 model: `piApi_correct` assumes RouteCorrect for cache / "
           "Legendre / Meissel / Gourdon-64 / Gourdon-128 (discharged by C17, C02/C07, C08; Gourdon partial)",
           "translator/extract_api.py reads thresholds and the SHAPE of the dispatcher from src/api.cpp, PiTable.hpp/.cpp",
           "harness/ops_pi.cpp calls the real entry points (C++ int64/int128/string API, C API, the built CLI binary)",
           "pcdrv answers from the proved oracles piTableArr / piSieve / windowListWith (theorems oracle_table, "
           "oracle_piSieve, C05.windowDeltas_*), pushed through the L2 model of the entry points",
           "x > 2*10^6 is judged by increments only (a constant shift of pi on a whole regime above 10^8 is excluded by "
           "the thorough checkpoint pi(10^8-2000) and otherwise only by the C08 identities)"]
ASSUMPTIONS = ["string entry points are exercised on strings of digits only (expressions: C13)",
               "x <= 10^12 (quick) / 10^13 (thorough) in this check (C05 continues to 10^16 / 2^63 by increments)"]

ENTRIES = ["pi64", "pi128", "cpi", "pistr", "cpistr"]


def chunks(xs, n):
    for i in range(0, len(xs), n):
        yield xs[i:i + n]


def streams(ctx):
    rng = ctx.rng
    N = 300000 if ctx.quick else 2000000
    regimes = {}

    def count_regime(x, k=1):
        r = pc.regime(x)
        regimes[r] = regimes.get(r, 0) + k

    sts = []
    # ---- (1) exhaustive, absolute
    ops = []
    allx = list(range(-64, N + 1))
    for e in ENTRIES:
        xs = allx if e in ("pi64", "pi128", "cpi") else [x for x in allx if x >= 0]
        for x in xs:
            count_regime(x)
        for c in chunks(xs, 4000):
            ops.append("pi_batch %s %d..%d" % (e, c[0], c[-1]))
    # edge values of the integer types
    ops.append("pi_batch pi64 %d %d %d -1 0 1 2 3" % (-2 ** 63, -2 ** 63 + 1, -2 ** 62))
    ops.append("pi_batch cpi %d %d -1 0 1 2 3" % (-2 ** 63, -2 ** 63 + 1))
    ops.append("pi_batch pi128 %d %d %d %d -1 0 1 2" % (-2 ** 127, -2 ** 127 + 1, -2 ** 64, -2 ** 63))
    # negative 128-bit values whose low 64 bits, read as int64, are small positive numbers: the narrowing cast
    # must never be reached for them
    ops.append("pi_batch pi128 %d %d %d %d %d" % (-2 ** 64 + 100, -2 ** 64 + 30720, -2 ** 65 + 100000, -2 ** 100 + 7,
                                                 -2 ** 127 + 1000))
    sts.append(Stream("exhaustive", ops, oracle=True, judge=pc.batch_judge(ctx, "exhaustive"),
                      nontrivial=lambda o, r: None, classify=lambda o, r: o.split()[1], timeout=1200))

    # ---- (1b) CLI sample + strings with leading zeros / limits
    sample = sorted(set([0, 1, 2, 3, 4, 5, 29, 30, 240, 30718, 30719, 30720, 30721, 99999, 100000, 100001, N - 1, N] +
                        [rng.randint(0, N) for _ in range(120 if ctx.quick else 1000)]))
    ops = ["pi_batch cli " + " ".join(map(str, sample))]
    for x in sample:
        count_regime(x)
    zs = ["0", "00", "000000000000000000000000000000000000000000000000000000000007", "0030719", "00030720", "0100000",
          "0000000000000000000000000000000000000000000000000000000000000000000000100001"]
    for e in ("pistr", "cpistr", "cli"):
        ops.append("pi_batch %s %s" % (e, " ".join(zs)))
        # values above INT128_MAX are rejected by to_maxint before any route is consulted
        ops.append("pi_batch %s %d %d %d %s" % (e, 2 ** 127, 2 ** 127 + 1, 10 ** 39, "9" * 60))
    sts.append(Stream("cli+strings", ops, oracle=True, judge=pc.batch_judge(ctx, "cli+strings"),
                      nontrivial=lambda o, r: None, classify=lambda o, r: o.split()[1], timeout=600))

    # ---- (2) threshold 10^8 (Meissel -> Gourdon) by increments, all in-process entry points
    ops = []
    base = pc.T_MEISSEL - 2000
    for e in ENTRIES:
        ops.append("piwin %s %d 1..4000" % (e, base))
        count_regime(base, 2000)
        count_regime(base + 4000, 2000)
    # the other two thresholds once more as increments (they are inside (1) in absolute terms)
    for t in (pc.MAX_CACHED, pc.T_LEGENDRE):
        ops.append("piwin pistr %d 1..4000" % (t - 2000))
    sts.append(Stream("threshold-1e8", ops, oracle=True, model_ops=pc.window_model_ops(),
                      judge=pc.window_judge(ctx, "threshold-1e8"), nontrivial=lambda o, r: None,
                      classify=lambda o, r: o.split()[1], timeout=1200))
    # ---- (2b) root transitions: x = k^n - 1, k^n (n = 2, 3, 4, 6) are exactly the inputs where isqrt / iroot<N>, and with
    # them y, a and every loop bound of Legendre / Meissel / Gourdon, change value; all cubes, fourth and sixth powers
    # above the exhaustive range up to 1e8 (+ a sample of squares; all squares in the thorough tier), by increments
    ops = []
    ks = []
    for n, kmax in ((3, 464), (4, 100), (6, 21)):
        ks += [k ** n for k in range(2, kmax + 1) if k ** n > N]
    sq = [k * k for k in range(int(N ** 0.5) + 1, 10 ** 4 + 1)]
    ks += sq if not ctx.quick else rng.sample(sq, 400)
    ks += [k ** n for n, lo, hi in ((2, 10 ** 4, 3 * 10 ** 6), (3, 465, 21000), (4, 101, 1700), (6, 22, 140))
           for k in (rng.randint(lo, hi) for _ in range(25 if ctx.quick else 400))]
    for v in sorted(set(ks)):
        ops.append("piwin %s %d 1..4" % (rng.choice(("pi64", "pi128", "pistr")), v - 3))
        count_regime(v, 4)
    sts.append(Stream("root-transitions", pc.order_windows(ops), oracle=True, model_ops=pc.window_model_ops(),
                      judge=pc.window_judge(ctx, "root-transitions"), nontrivial=lambda o, r: None,
                      classify=lambda o, r: o.split()[1], timeout=1800))
    if not ctx.quick:
        ops = ["pi_batch %s %d" % (e, base) for e in ("pi64", "pistr")] + ["pi_batch pi128 %d" % pc.T_MEISSEL]
        sts.append(Stream("checkpoint-1e8", ops, oracle=True, judge=pc.batch_judge(ctx, "checkpoint-1e8"),
                          nontrivial=lambda o, r: None, timeout=1200))

    # ---- (3) structured x up to 10^12: all entry points agree, increments judged by the window sieve
    hi = 10 ** 12 if ctx.quick else 10 ** 13
    xs = pc.structured_xs(rng, hi, 130 if ctx.quick else 1500)
    # neighbourhoods of the thresholds as well, through ALL entry points including the CLI
    xs += [pc.MAX_CACHED - 3, pc.T_LEGENDRE - 3, pc.T_MEISSEL - 3]
    pairs = [(x, rng.choice((1, 2, 6, 30, 240, 1000, rng.randint(1, 10000), 10000))) for x in xs]
    ops = []
    for x, d in pairs:
        ops += ["piall %d" % x, "piall %d" % (x + d)]
        count_regime(x)
        count_regime(x + d)

    def all_model_ops(ops_, impl):
        return pc.order_windows(["piwin pistr %s %d" % (ops_[i].split()[1], int(ops_[i + 1].split()[1]) - int(ops_[i].split()[1]))
                                 for i in range(0, len(ops_), 2)], big=10 ** 18)

    def all_judge(ops_, impl, mops, model):
        dis = []
        for i in range(0, len(ops_), 2):
            x, y = int(ops_[i].split()[1]), int(ops_[i + 1].split()[1])
            u, v, m = impl[i], impl[i + 1], model[i // 2]
            ctx.res.evaluations += 10
            for (xx, uu) in ((x, u), (y, v)):
                if uu.startswith("DIFF"):
                    dis.append(dict(index=i, op="piall %d" % xx, impl=uu, model="(all entry points equal)", differ=True, x=xx))
            if u.lstrip("-").isdigit() and v.lstrip("-").isdigit():
                if m.isdigit() and int(m) > 0:
                    ctx.res.distinct.add(("structured", x, y - x))
                if str(int(v) - int(u)) != m:
                    dis.append(dict(index=i, op="piwin pistr %d %d" % (x, y - x), impl=str(int(v) - int(u)), model=m,
                                    entry="pistr", a=x, d=y - x, window=True))
            elif not (u.startswith("DIFF") or v.startswith("DIFF")) and u not in ("HANG", "CRASH", "SKIPPED"):
                dis.append(dict(index=i, op="piall %d" % x, impl=u + " / " + v, model=m))
        return dis
    sts.append(Stream("structured", ops, oracle=True, model_ops=all_model_ops, judge=all_judge,
                      nontrivial=lambda o, r: None, classify=lambda o, r: pc.regime(int(o.split()[1])), timeout=1800))
    ctx.res.extra["regimes_hit"] = regimes
    return sts


def search(ctx, proof_broken, bad, dis):
    return pc.search(ctx, proof_broken, bad, dis, "C01")
