"""C06 (WP nth) — nth_prime on the REAL iterator model (`Pc.NthIt.nthPrimeCpp`, PcModel/NthIt.lean; theorems PcProps/C06Nth.lean).

Auto-discovered by the runner (pcv/props/c06_<name>.py).  Three streams:

* `nth-it`            (mirror): `nth_parts n` -> what nth_prime.cpp:104-106 derived (RiemannR_inverse(n), pi(approx), ilog(approx))
                      and the result; the model op `nth_it` EXECUTES src/nth_prime.cpp's model with those three values as its parameters
                      (walk on the `Pc.It` state machine over the window-sieve core) and must print the same line.  Inside the op
                      the model is re-run with other approximations (the result itself, +-1, approx +-1, +-1000, 0..3, 2*approx):
                      theorem `walk_any_approx`.
* `nth-approx-prime`  (oracle): `nth_papprox n0 k` -> the first k values n >= n0 whose approximation RiemannR_inverse(n) is ITSELF A
                      PRIME (the boundary at which an inclusive / exclusive mix-up of the walk's start shows), at n0 = 10^7..10^11
                      and seeded n0; each entry certified by the driver (q prime by trial division, pi(q) = n, approx prime, the
                      model walk from approx ends on q).  A complaint is reported as the replayable failing input `nth_from <n> <approx> <pi(approx)> <ilog>`
                      (harness: nth_prime(n); model: the walk from that approximation).
* `nth-cli-expr`      (oracle): `primecount <expr> --nth-prime` for expressions in and outside int64 / [1, max_n] (theorem `cli_nth_prime`).
"""
import math

from ..runner import Stream

MAXN = 216289611853439384
RULE = ("WP nth: nth_parts/nth_it on every regime change +-6, 150 seeded n <= 3314, log-uniform n to 10^10 (quick) / 10^11 "
        "(thorough), runs of consecutive n, classes walk direction x distance bucket x {approx prime, pi(approx) = n}; "
        "nth_papprox at 10^7, 10^8, 10^9, 10^10, 10^11 and seeded n0 (first 2-3 n with a prime approximation each); "
        "cli_nth_expr on 30 expressions")
TRUSTED = ["nth-it: pi(approx) and RiemannR_inverse(n) are re-computed by the harness with the same calls nth_prime makes (the "
           "values are parameters of the model: the theorem holds for every value)",
           "nth-approx-prime: the count pi(q) = n is the implementation's own primecount::pi (C01); primality of q and of the "
           "approximation by Lean trial division; the walk by the executable iterator model over the proved window sieve"]
ASSUMPTIONS = ["the model walk is executed for approx <= 5*10^13 and |n - pi(approx)| <= 60000 (beyond: certified by nth_judge only)"]


def _is_prime(n):
    if n < 2:
        return False
    for p in (2, 3, 5, 7, 11, 13, 17, 19, 23, 29, 31, 37):
        if n % p == 0:
            return n == p
    d, r = n - 1, 0
    while d % 2 == 0:
        d //= 2
        r += 1
    for a in (2, 3, 5, 7, 11, 13, 17, 19, 23, 29, 31, 37):
        x = pow(a, d, n)
        if x in (1, n - 1):
            continue
        for _ in range(r - 1):
            x = x * x % n
            if x == n - 1:
                break
        else:
            return False
    return True


def it_stream(ctx):
    rng = ctx.rng
    ns = set([1, 2, 3])
    for c in (169, 170, 3314, 3315):
        ns.update(range(max(1, c - 6), c + 7))
    ns.update(rng.randint(1, 3314) for _ in range(150))
    top = 10**10 if ctx.quick else 10**11

    def logu(a, b):
        return int(math.exp(rng.uniform(math.log(a), math.log(b))))
    for _ in range(260 if ctx.quick else 4000):
        ns.add(logu(3315, 10**7))
    for _ in range(90 if ctx.quick else 1500):
        ns.add(logu(10**7, 10**9))
    for _ in range(16 if ctx.quick else 200):
        ns.add(logu(10**9, top))
    for _ in range(5 if ctx.quick else 40):
        b = logu(3315, 10**8)
        ns.update(range(b, b + 25))
    k = 4
    while 10**k <= top:
        ns.update([10**k - 1, 10**k, 10**k + 1])
        k += 1
    ns = sorted(ns)
    ops = ["nth_parts %d" % n for n in ns] + ["nth_parts 0", "nth_parts -7", "nth_parts %d" % (MAXN + 1)]

    def model_ops(ops, impl):
        out = []
        for o, a in zip(ops, impl):
            n = o.split()[1]
            f = a.split()
            if len(f) == 4 and all(x.lstrip("-").isdigit() for x in f):
                out.append("nth_it %s %s %s %s" % (n, f[1], f[2], f[3]))
            else:
                out.append("nth_it %s 0 0 0" % n)     # errors: the model's domain check answers
        return out

    def judge(ops, impl, mops, model):
        dis = []
        for i, (o, a, b) in enumerate(zip(ops, impl, model)):
            if a in ("HANG", "CRASH", "SKIPPED") or b == "ERR:model-bound":
                continue
            if a != b:
                dis.append(dict(index=i, op=o, impl=a, model=b))
        return dis

    def classify(op, res):
        f = res.split()
        n = int(op.split()[1])
        if len(f) != 4:
            return "error"
        if n < 170:
            return "table"
        if n < 3315:
            return "binary-search"
        q, a, c = int(f[0]), int(f[1]), int(f[2])
        d = abs(c - n)
        bucket = "0" if d == 0 else "<=10" if d <= 10 else "<=100" if d <= 100 else "<=1000" if d <= 1000 else ">1000"
        tag = ("fwd" if c < n else "bwd") + ":dist" + bucket
        if a == q:
            tag += ":approx=result"
        elif _is_prime(a):
            tag += ":approx-prime"
        return tag

    return Stream("nth-it", ops, oracle=False, model_ops=model_ops, judge=judge, classify=classify, timeout=600)


def approx_prime_stream(ctx):
    rng = ctx.rng
    starts = [(10**7, 3), (10**8, 3), (10**9, 3), (10**10, 3), (10**11, 3)]
    starts += [(rng.randint(10**7, 10**9), 2) for _ in range(4)]
    starts += [(rng.randint(10**9, 10**10), 2) for _ in range(2)]
    starts += [(rng.randint(10**11, 3 * 10**11), 2)]
    if not ctx.quick:
        starts += [(rng.randint(10**7, 10**10), 3) for _ in range(60)]
        starts += [(rng.randint(10**10, 10**12), 3) for _ in range(30)] + [(10**12, 4), (10**13, 2)]
    ops = ["nth_papprox %d %d" % s for s in starts]

    def model_ops(ops, impl):
        return ["nth_papprox_chk %s %s %s" % (o.split()[1], o.split()[2], a if a not in ("HANG", "CRASH", "SKIPPED") else "-")
                for o, a in zip(ops, impl)]

    def judge(ops, impl, mops, model):
        dis = []
        for i, (o, a, b) in enumerate(zip(ops, impl, model)):
            if a in ("HANG", "CRASH", "SKIPPED"):
                continue
            if b == "ok":
                continue
            f = dict(x.split("=", 1) for x in b.split(":")[2:] if "=" in x) if b.startswith("bad:") else {}
            if "n" in f and "impl" in f:
                want = f.get("model", "-")
                if want not in ("-", "error") and all(k in f for k in ("approx", "capprox", "lg")):
                    # replayable: the harness answers nth_prime(n), the model walks from the reported approximation / count
                    dis.append(dict(index=i, op="nth_from %s %s %s %s" % (f["n"], f["approx"], f["capprox"], f["lg"]),
                                    impl=f["impl"], model=want, complaint=b, found_by=o))
                else:
                    dis.append(dict(index=i, op="nth %s" % f["n"], impl=f["impl"],
                                    model="the n-th prime: a prime q with pi(q) = n", complaint=b, found_by=o))
            else:
                dis.append(dict(index=i, op=o, impl=a, model=b))
        return dis

    def classify(op, res):
        n0 = int(op.split()[1])
        k = len(str(n0)) - 1
        out = []
        for e in res.split():
            f = e.split(",")
            if len(f) == 6:
                n, c = int(f[0]), int(f[4])
                d = abs(c - n)
                out.append("1e%d:%s:dist%s" % (k, "fwd" if c < n else "bwd", "<1000" if d < 1000 else "<10000" if d < 10000 else ">=10000"))
        return ",".join(sorted(set(out))) or "none"

    env = None if ctx.quick else {"PCV_OP_TIMEOUT": "120"}
    return Stream("nth-approx-prime", ops, oracle=True, model_ops=model_ops, judge=judge, classify=classify, env=env, timeout=1800)


def cli_expr_stream(ctx):
    rng = ctx.rng
    exprs = ["0", "1", "2", "169", "170", "3314", "3315", "20000", "0-1", "0-5", "0-9223372036854775808", "0-9223372036854775809",
             "9223372036854775807", "9223372036854775808", "2^63", "2^63-1", "2**64+5", "0-18446744073709551516", "1e19", "1e30",
             "%d+1" % MAXN, "%d" % (MAXN + 1), "10**2", "(3+4)*1000", "1/0", "5%3", "2^127", "0-(2^127-1)",
             "%d" % rng.randint(1, 20000), "%d*%d" % (rng.randint(2, 100), rng.randint(2, 100)), "%d-%d" % (10**18, 10**18 - rng.randint(1, 9999))]
    ops = ["cli_nth_expr " + e.encode().hex() for e in exprs]
    return Stream("nth-cli-expr", ops, oracle=True, classify=lambda op, res: res.split(":")[0], timeout=300)


def streams(ctx):
    return [it_stream(ctx), approx_prime_stream(ctx), cli_expr_stream(ctx)]
