"""C12 (second half) — parameters derived from x: x_star, k, c, against the exact L2 definitions (mirror), with an
L1 monitor deciding whether a deviation violates the BOUNDS the algorithms assume (Pc.Spec.GParams: these are exactly the
hypotheses under which A - B + C + D + Phi0 + Sigma = pi(x) is proved):
   x < (x_star+1)^4,  x < (x_star+1)*y^2,  x_star <= isqrt(x/y),  1 <= x_star <= y.
A deviation inside the bounds is reported without a failing input (harmless for the property, but the model no longer
mirrors the code); a deviation outside them is a failing input."""
from ..runner import Stream
from .. import gen

RULE = ("xstar/get_k/get_c ops: x log-uniform over [1, 4e31] plus root transitions k^n-1,k^n,k^n+1 (n=2,3,4,6), y over the whole "
        "admissible interval (x^(1/3), x^(1/2)) incl. both ends and y >= 2^32; distinct = distinct op lines")
TRUSTED = ["model side = PcModel/Formulas.lean xStar / fGetK / fGetC (the definitions the Gourdon identity is proved for)"]
ASSUMPTIONS = []


def _ys(rng, x, n):
    x13, sq = gen.iroot(3, x), gen.isqrt(x)
    lo, hi = x13 + 1, max(sq - 1, x13 + 1)
    ys = {lo, hi, min(hi, lo + 1), max(lo, hi - 1)}
    for _ in range(n):
        # log-uniform inside the interval
        import math
        if hi > lo:
            t = rng.random()
            ys.add(min(hi, max(lo, int(lo * (hi / lo) ** t))))
    for e in (31, 32, 33, 40, 47):
        for d in (-1, 0, 1, 27578):
            v = 2 ** e + d
            if lo <= v <= hi:
                ys.add(v)
    return sorted(y for y in ys if y >= 1)


def streams(ctx):
    rng = ctx.rng
    ops = []
    xs = set()
    nx = 400 if ctx.quick else 6000
    for _ in range(nx):
        b = rng.randint(1, 105)
        xs.add(min(rng.getrandbits(b) + 1, 4 * 10 ** 31))
    for n in (2, 3, 4, 6):
        for _ in range(40 if ctx.quick else 600):
            k = rng.getrandbits(rng.randint(1, 104 // n)) + 1
            for d in (-1, 0, 1):
                if 1 <= k ** n + d <= 4 * 10 ** 31:
                    xs.add(k ** n + d)
    for e in range(1, 32):
        xs.update([10 ** e - 1, 10 ** e, 10 ** e + 1])
    for e in (62, 63, 64, 65, 93, 100):
        xs.update([2 ** e - 1, 2 ** e, 2 ** e + 1])
    for x in sorted(xs):
        for y in _ys(rng, x, 3):
            if y <= 2 ** 63 - 1:
                ops.append("xstar %d %d" % (x, y))
        ops.append("get_k %d" % x)
        if x < 2 ** 63:
            ops.append("get_c %d" % x)

    def judge(ops_, impl, mops, model):
        dis = []
        for i, (o, a, b) in enumerate(zip(ops_, impl, model)):
            if a == b:
                continue
            d = dict(index=i, op=o, impl=a, model=b)
            p = o.split()
            if p[0] == "xstar":
                x, y = int(p[1]), int(p[2])
                try:
                    w = int(a)
                    ok = (x < (w + 1) ** 4 and x < (w + 1) * y * y and w <= gen.isqrt(x // y) and 1 <= w <= y)
                except ValueError:
                    ok = False
                # inside the bounds the identity is still proved: not a failing input of the property
                d["oracle"] = not ok
                d["monitor"] = "GParams bounds %s for the observed x_star" % ("HOLD" if ok else "VIOLATED")
            else:
                d["oracle"] = True
            dis.append(d)
        return dis

    return [Stream("derived-params", ops, oracle=False, judge=judge, classify=lambda o, r: o.split()[0], timeout=300)]
