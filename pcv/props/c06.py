"""C06 — nth_prime(n) is the n-th prime and inverts pi."""
from ..runner import Stream

MAXN = 216289611853439384          # the bound of the property statement (NOT read from the code)
I64_MIN, I64_MAX = -2**63, 2**63 - 1
DIRECT_MAX = 10**5                 # the Lean sieve oracle answers n <= 10^5 directly (p n < 1.3e6)

RULE = ("every n <= 10^5 (batch lines of 2000, compared with the Lean sieve oracle and the executable model), "
        "single nth/cnth ops +-50 around the regime changes 169/170 and 3314/3315 and at 1, 10^5; out-of-range n "
        "(0, -1, -2^63, maxN+1, 2^63-1, seeded random negatives / huge) on the C++ API, the C API and (first 40) the command "
        "line program; structured (10^k, 2^k +- d) and "
        "seeded log-uniform n up to 10^11 (quick: 1200 below 10^9, 120 in [10^9,10^11], structured up to 10^13) / "
        "10^12 (thorough: structured up to 10^15) certified by nth_judge; "
        "distinct = distinct n per stream")
TRUSTED = ["L1 model PcModel/NthPrime.lean: RiemannR_inverse is an arbitrary natural (theorems hold for every value); "
           "primesieve::iterator, primecount::pi and PiTable::pi_cache are parameters with their specifications as "
           "hypotheses (NthEnv.Correct = C18, C01, C17); the iterator's stop argument is a hint and is not modelled",
           "for n > 10^5 the count pi(q) = n is the implementation's own primecount::pi (C01) (a few points also with "
           "primesieve::count_primes); primality of q is checked independently by Lean trial division",
           "Lean sieve oracle PcModel/Oracle.lean (sieveArr) for n <= 10^5 (its correctness proof belongs to the "
           "oracle package)",
           "harness ops_nth.cpp calls primecount::nth_prime / primecount_nth_prime of the built library"]
ASSUMPTIONS = ["machine-integer width is not modelled: for 1 <= n <= max_n all quantities stay below 2^63 provided "
               "RiemannR_inverse(n) is in [0, 2^63-2] and p(max_n) < 2^63 (theorem nthPrime_fits carries the latter "
               "as a hypothesis; max_n = pi(2^63) is a literature constant); the harness checks approx >= 0 on "
               "every certified point",
               "n = max_n itself (and anything above 10^15) is not executed: the run would take hours"]


def generated_obligations():
    return 3   # PcGen/NthPrimeObl.lean: table length, head, chain of consecutive primes (decide +kernel)


def _in_range(n):
    return 1 <= n <= MAXN


def small_stream(ctx):
    ops = []
    step = 2000
    for lo in range(1, DIRECT_MAX + 1, step):
        ops.append("nth_batch " + " ".join(str(n) for n in range(lo, min(lo + step, DIRECT_MAX + 1))))
    singles = set([1, 2, 3, DIRECT_MAX - 1, DIRECT_MAX])
    for c in (169, 170, 3314, 3315):
        singles.update(range(max(1, c - 50), c + 51))
    for n in sorted(singles):
        ops.append("nth %d" % n)
        ops.append("cnth %d" % n)
    for c in (1, 3, 170, 3315, 5000, DIRECT_MAX - 2):
        for n in range(max(1, c - 3), c + 3):
            ops.append("cli_nth %d" % n)
    # a shuffled batch (order independence of the batch op itself) and one mixing errors with values
    mix = [ctx.rng.randint(1, DIRECT_MAX) for _ in range(500)]
    ops.append("nth_batch " + " ".join(map(str, mix)))
    ops.append("nth_batch 0 1 -5 170 %d 3315 %d 99991" % (MAXN + 1, I64_MIN))

    def nontrivial(op, res):
        return op if not op.startswith("nth_batch") else ("batch", op.split()[1], len(op.split()))

    st = Stream("nth-small", ops, oracle=True, nontrivial=nontrivial,
                classify=lambda op, res: op.split()[0], timeout=300)
    return st


def domain_stream(ctx):
    rng = ctx.rng
    ns = [0, -1, -2, -170, I64_MIN, I64_MIN + 1, MAXN + 1, MAXN + 2, I64_MAX, I64_MAX - 1, 10**18, 2**62, -(2**62)]
    for _ in range(40 if ctx.quick else 2000):
        ns.append(-rng.getrandbits(rng.randint(1, 63)))
        ns.append(rng.randint(MAXN + 1, I64_MAX))
    ns = [n for n in ns if I64_MIN <= n <= I64_MAX and not _in_range(n)]
    ops = []
    for i, n in enumerate(ns):
        ops.append("nth %d" % n)
        ops.append("cnth %d" % n)
        if i < 40:
            ops.append("cli_nth %d" % n)

    def judge(ops, impl, mops, model):
        dis = []
        for i, (o, a, b) in enumerate(zip(ops, impl, model)):
            if a in ("HANG", "CRASH", "SKIPPED"):
                continue
            want = {"nth": "ERR:pc", "cnth": "-1", "cli_nth": "nz:"}[o.split()[0]]
            if a != want or b != want:
                dis.append(dict(index=i, op=o, impl=a, model=b, expected=want))
        return dis

    return Stream("nth-domain", ops, oracle=True, judge=judge, classify=lambda op, res: op.split()[0] + ":" + res,
                  timeout=120)


def large_ns(ctx):
    """(n list) structured points up to `top`, log-uniform random points in a cheap and in an expensive band,
    runs of consecutive n."""
    import math
    rng = ctx.rng
    top = 10**12 if ctx.quick else 10**14          # structured points
    cheap_top = 10**9 if ctx.quick else 10**10     # many random points (each op takes milliseconds)
    dear_top = 10**11 if ctx.quick else 10**12     # fewer random points (each op ~0.1-0.3 s)
    ns = set()
    k = 5
    while 10**k <= top:
        for d in (-2, -1, 0, 1, 2):
            ns.add(10**k + d)
        for m in (2, 3, 5, 7):
            if m * 10**k <= top:
                ns.add(m * 10**k)
        k += 1
    e = 17
    while 2**e <= top:
        for d in (-1, 0, 1):
            ns.add(2**e + d)
        e += 1
    ns.update([DIRECT_MAX + 1, DIRECT_MAX + 2, top])

    def logu(a, b):
        return int(math.exp(rng.uniform(math.log(a), math.log(b))))
    for _ in range(1200 if ctx.quick else 20000):
        ns.add(logu(DIRECT_MAX + 1, cheap_top))
    for _ in range(120 if ctx.quick else 2000):
        ns.add(logu(cheap_top, dear_top))
    # runs of consecutive n (the walk distance changes by one at each step, the direction flips somewhere)
    for _ in range(6 if ctx.quick else 40):
        b = logu(DIRECT_MAX + 1, cheap_top)
        ns.update(range(b, b + 40))
    ns = sorted(n for n in ns if DIRECT_MAX < n <= top)
    ns += [10**13] if ctx.quick else [10**15, 10**15 - 1, 3 * 10**14 + 7]
    return ns


def large_stream(ctx):
    ns = large_ns(ctx)
    ops = ["nth_chk %d" % n for n in ns]
    # a count that does not come from primecount::pi (primesieve::count_primes), q <= ~2e9
    psn = [10**5 + 1, 10**6, 10**7, 5 * 10**7] + [ctx.rng.randint(10**5, 5 * 10**7) for _ in range(12 if ctx.quick else 60)]
    if not ctx.quick:
        psn += [10**8, 10**9]
    ops += ["nth_ps %d" % n for n in psn]

    def model_ops(ops, impl):
        out = []
        for o, a in zip(ops, impl):
            name, n = o.split()
            f = a.split(",")
            ok = all(x.lstrip("-").isdigit() for x in f)
            if name == "nth_chk" and len(f) == 5 and ok:
                out.append("nth_judge %s %s %s %s %s %s" % (n, f[0], f[1], f[2], f[3], f[4]))
            elif name == "nth_ps" and len(f) == 2 and ok:
                out.append("nth_judge %s %s %s - - -" % (n, f[0], f[1]))
            else:
                out.append("nth_judge %s %s - - - -" % (n, a.replace(" ", "_")[:60] or "empty"))
        return out

    def judge(ops, impl, mops, model):
        dis = []
        for i, (o, a, b) in enumerate(zip(ops, impl, model)):
            if a in ("HANG", "CRASH", "SKIPPED"):
                continue
            if b != "ok":
                dis.append(dict(index=i, op=o, impl=a, model=b))
        return dis

    def classify(op, res):
        f = res.split(",")
        if op.startswith("nth_ps"):
            return "primesieve-count"
        if len(f) != 5:
            return "other"
        n = int(op.split()[1])
        try:
            return "walk-forward" if int(f[4]) < n else "walk-backward"
        except ValueError:
            return "other"

    # thorough: the 10^15 points take several seconds each (three pi() calls): give them more than the default 20 s
    env = None if ctx.quick else {"PCV_OP_TIMEOUT": "120"}
    return Stream("nth-large", ops, oracle=True, model_ops=model_ops, judge=judge, classify=classify, env=env,
                  timeout=1800 if ctx.quick else 7200)


def streams(ctx):
    info = ctx.res.extra.get("translator", {}).get("extract_nthprime", {})
    if "extractor_shape_changed" in info:
        ctx.res.violations.append(dict(kind="translator",
                                       detail="src/nth_prime.cpp / include/PiTable.hpp no longer have the shape the model "
                                              "was written for: " + info["extractor_shape_changed"],
                                       witness=dict(failing_input=None, broken="translator/extract_nthprime.py")))
    return [small_stream(ctx), domain_stream(ctx), large_stream(ctx)]


def search(ctx, proof_broken, bad, dis):
    """Reduce a differing batch line to the individual n that differ (at most 3 per line), then report as usual."""
    from ..runner import default_search
    out = []
    for d in dis:
        f = d.get("op", "").split()
        if d.get("crash") and len(f) == 2 and f[0] in ("nth", "cnth", "cli_nth") and not _in_range(int(f[1])):
            d["model"] = {"nth": "ERR:pc", "cnth": "-1", "cli_nth": "nz:"}[f[0]]      # the spec value for an out-of-range n
        if d.get("op", "").startswith("nth_batch") and not d.get("crash") and not d.get("model_crash"):
            ns = d["op"].split()[1:]
            a, b = d["impl"].split(","), d["model"].split(",")
            if len(a) == len(b) == len(ns):
                k = 0
                for n, x, y in zip(ns, a, b):
                    if x != y:
                        if k < 3:
                            out.append(dict(d, op="nth " + n, impl=x, model=y))
                        k += 1
                continue
        out.append(d)
    # the runner reports the first five: put one representative of every (stream, op kind) first
    first, rest, seen = [], [], set()
    for d in out:
        k = (d.get("stream"), d.get("op", "").split(" ")[0])
        (rest if k in seen else first).append(d)
        seen.add(k)
    default_search(ctx, proof_broken, bad, first + rest)
    return True
