"""Shared input generators and small exact helpers for the op streams (Python side only:
nothing here is an oracle; it only chooses WHICH inputs are sent)."""
import math

SMALL_PRIMES = [2, 3, 5, 7, 11, 13, 17, 19]


def isqrt(x):
    return math.isqrt(x)


def iroot(n, x):
    if x < 2:
        return x
    r = int(round(x ** (1.0 / n)))
    while r ** n > x:
        r -= 1
    while (r + 1) ** n <= x:
        r += 1
    return r


def get_c(y):
    return sum(1 for p in SMALL_PRIMES if p <= y) if y < 20 else 8


def get_k(x):
    return get_c(iroot(4, x))


_sieve_cache = {}


def primes_upto(n):
    if n in _sieve_cache:
        return _sieve_cache[n]
    s = bytearray([1]) * (n + 1)
    s[0:2] = b"\0\0"
    for i in range(2, isqrt(n) + 1):
        if s[i]:
            s[i * i::i] = bytearray(len(s[i * i::i]))
    ps = [i for i in range(n + 1) if s[i]]
    _sieve_cache[n] = ps
    return ps


def structured_x(rng, lo, hi, n):
    """log-uniform + structured values in [lo, hi]"""
    xs = set()
    ps = primes_upto(100000)
    while len(xs) < n:
        kind = rng.randrange(7)
        e = rng.uniform(math.log(max(lo, 2)), math.log(hi))
        v = int(math.exp(e))
        if kind == 1:   # perfect powers +-1
            k = rng.choice((2, 3, 4, 6))
            v = iroot(k, v) ** k + rng.choice((-1, 0, 1))
        elif kind == 2:  # multiples of 240 / 2310 / 510510
            m = rng.choice((240, 2310, 510510, 30))
            v = (v // m) * m + rng.choice((-1, 0, 1))
        elif kind == 3:  # semiprime-ish
            p = rng.choice(ps)
            v = p * max(2, v // p)
        elif kind == 4:  # powers of two and ten
            v = rng.choice((2 ** rng.randint(1, 62), 10 ** rng.randint(1, 18))) + rng.choice((-1, 0, 1))
        elif kind == 5:  # prime squares / cubes
            p = rng.choice(ps)
            v = p ** rng.choice((2, 3)) + rng.choice((-1, 0, 1))
        if lo <= v <= hi:
            xs.add(v)
    return sorted(xs)


def gourdon_yz(rng, x, boundary_bias=0.5):
    """a (y, z) pair that the alpha_y/alpha_z options can produce: x13 < y <= z < sqrt(x) when that
    interval is non-empty, else the clamps' degenerate outcome."""
    x13, sq = iroot(3, x), isqrt(x)
    lo, hi = x13 + 1, sq - 1
    if hi < lo:
        y = max(min(max(0, lo), hi), 1)
        z = max(min(max(y, y), hi), 1)
        return y, z
    if rng.random() < boundary_bias:
        y = rng.choice((lo, hi, min(hi, lo + 1), max(lo, hi - 1)))
    else:
        y = rng.randint(lo, hi)
    if rng.random() < boundary_bias:
        z = rng.choice((y, hi, min(hi, y + 1)))
    else:
        z = rng.randint(y, hi)
    return y, z


def dr_y(rng, x, boundary_bias=0.5):
    """y = (int)(x13 * alpha) for 1 <= alpha <= x^(1/6): any integer in [x13, ~sqrt x]"""
    x13, x16 = iroot(3, x), iroot(6, x)
    lo, hi = max(x13, 1), max(x13 * max(x16, 1), 1)
    if rng.random() < boundary_bias:
        return rng.choice((lo, hi, min(hi, lo + 1), max(lo, hi - 1)))
    return rng.randint(lo, hi)
